"""Minimal Intel-HEX writer (own implementation, independent of the intelhex package)."""


def record(addr, rtype, data, upper=True):
    body = bytes([len(data), (addr >> 8) & 0xFF, addr & 0xFF, rtype]) + bytes(data)
    csum = (-sum(body)) & 0xFF
    text = (body + bytes([csum])).hex()
    return ":" + (text.upper() if upper else text)


def dump(image, rec_len=16, start=0, upper=True, ext_record=False, lengths=None, skip_blank=False):
    """Intel-HEX text for `image` placed at address `start` (< 64 KiB segments handled).

    skip_blank: data records that would hold only 0xFF (erased flash) are left out, except the first and the
    last record - the file then has address gaps, which a reader fills with 0xFF again."""
    lines = []
    if ext_record:
        lines.append(record(0, 4, [0, 0], upper))
    pos = 0
    addr = start
    high = 0
    i = 0
    while pos < len(image):
        n = lengths[i % len(lengths)] if lengths else rec_len
        i += 1
        n = max(1, min(n, len(image) - pos, 0x10000 - (addr & 0xFFFF)))
        if (addr >> 16) != high:
            high = addr >> 16
            lines.append(record(0, 4, [(high >> 8) & 0xFF, high & 0xFF], upper))
        chunk = image[pos : pos + n]
        if not (skip_blank and pos > 0 and pos + n < len(image) and set(chunk) == {0xFF}):
            lines.append(record(addr & 0xFFFF, 0, chunk, upper))
        pos += n
        addr += n
    lines.append(record(0, 1, [], upper))
    return "\n".join(lines) + "\n"
