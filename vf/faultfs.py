"""File-operation interposer for mysensors.persistence.

Replaces the names `open` and `os` inside the mysensors.persistence module (never
in /repo) so that every file-system operation of a save is recorded and can be
turned into a crash point or a failing operation, and models which data survives
a crash when unsynced data is lost.

Operations recorded (kind, path-basename):
  open, write (one per write() call), flush, fsync, close, rename, remove
"""
import os as _os


class Crash(BaseException):
    """The process dies here (BaseException: no `except Exception` swallows it)."""


class FaultPlan:
    """Fault at operation index `k`: mode in {'crash_before','crash_after','fail','fail_from'} ('fail_from': this and every later operation fails)."""

    def __init__(self, k=None, mode=None, errno_=5):
        self.k = k
        self.mode = mode
        self.errno = errno_
        self.fired = False


class _File:
    """File object handed to the code under test.

    Models the three places data can be: the process's own write buffer (lost whenever the
    process dies), the kernel's page cache (`written`; survives a process crash, lost on power
    loss unless fsync'ed) and the disk (`synced`). write() only fills the user buffer - like
    Python's BufferedWriter it spills to the kernel when it exceeds 8 KiB; flush() hands the
    buffer to the kernel; fsync (see _OS.fsync) makes what the kernel has durable; close()
    flushes.
    """

    BUFFER = 8192

    def __init__(self, layer, real, path, mode):
        self._layer = layer
        self._real = real
        self._path = path
        self._mode = mode
        self._ubuf = []
        self._usize = 0
        self.closed = False

    def _spill(self):
        for chunk in self._ubuf:
            self._real.write(chunk)
        self._ubuf, self._usize = [], 0
        self._real.flush()
        st = self._layer.files[self._path]
        st["written"] = _os.path.getsize(self._path)

    def write(self, data):
        def do():
            self._ubuf.append(data)
            self._usize += len(data)
            if self._usize > self.BUFFER:
                self._spill()
            return len(data)

        return self._layer.op("write", self._path, do, size=len(data))

    def flush(self):
        return self._layer.op("flush", self._path, self._spill)

    def fileno(self):
        self._layer.fd_paths[self._real.fileno()] = self._path
        return self._real.fileno()

    def close(self):
        if self.closed:
            return None
        self.closed = True

        def do():
            self._spill()
            self._real.close()

        try:
            return self._layer.op("close", self._path, do)
        finally:
            if not self._real.closed:
                self._real.close()

    def read(self, *a):
        return self._real.read(*a)

    def readline(self, *a):
        return self._real.readline(*a)

    def readinto(self, *a):
        return self._real.readinto(*a)

    def __iter__(self):
        return iter(self._real)

    def __enter__(self):
        return self

    def __exit__(self, *exc):
        # a crash: whatever is still in the process's buffer is gone; the harness closes the fd
        if exc and exc[0] is not None and issubclass(exc[0], Crash):
            self._ubuf, self._usize = [], 0
            if not self._real.closed:
                self._real.close()
            return False
        self.close()
        return False


class _OSPath:
    def __init__(self, layer):
        self._layer = layer

    def __getattr__(self, name):
        return getattr(_os.path, name)


class _OS:
    """Stand-in for the `os` module inside mysensors.persistence."""

    def __init__(self, layer):
        self._layer = layer
        self.path = _os.path
        self.W_OK, self.R_OK = _os.W_OK, _os.R_OK

    def access(self, *a, **k):
        # a permission check is not an operation of the save; it can be made to answer "no" (read-only
        # directory / file at that moment) through Layer(deny_access={call index, ...})
        idx = self._layer.access_calls
        self._layer.access_calls += 1
        if self._layer.enabled and idx in self._layer.deny_access:
            self._layer.denied = True
            return False
        return _os.access(*a, **k)

    def rename(self, src, dst):
        def do():
            _os.rename(src, dst)
            self._layer.moves.append(("rename", src, dst))

        return self._layer.op("rename", src, do, dst=_os.path.basename(str(dst)))

    replace = rename

    def remove(self, path):
        def do():
            _os.remove(path)
            self._layer.moves.append(("remove", path, None))

        return self._layer.op("remove", path, do)

    unlink = remove

    def fsync(self, fd):
        path = self._layer.fd_paths.get(fd)

        def do():
            _os.fsync(fd)
            if path in self._layer.files:
                st = self._layer.files[path]
                st["synced"] = st["written"]

        return self._layer.op("fsync", path or f"fd{fd}", do)

    def __getattr__(self, name):
        return getattr(_os, name)


class Layer:
    """Context manager installing the interposer into mysensors.persistence."""

    def __init__(self, plan=None, record_reads=False, on_op=None, deny_access=()):
        self.plan = plan or FaultPlan()
        self.deny_access = set(deny_access)
        self.access_calls = 0
        self.denied = False
        self.on_op = on_op  # callable(idx, kind, basename) run right before an operation ("another thread runs now")
        self._in_hook = False
        self.trace = []  # (kind, basename, extra)
        self.files = {}  # path -> {"written": n, "synced": n} for files opened for writing
        self.fd_paths = {}
        self.moves = []  # completed ("rename", src, dst) / ("remove", path, None), in order
        self.count = 0
        self.enabled = True

    def __enter__(self):
        import mysensors.persistence as mod

        self._mod = mod
        self._saved_os = mod.os
        self._had_open = "open" in mod.__dict__
        self._saved_open = mod.__dict__.get("open")
        mod.os = _OS(self)
        mod.open = self._open
        return self

    def __exit__(self, *exc):
        mod = self._mod
        mod.os = self._saved_os
        if self._had_open:
            mod.open = self._saved_open
        else:
            del mod.open
        return False

    def _open(self, path, mode="r", *args, **kwargs):
        writing = any(c in mode for c in "wax+")
        if not writing or not self.enabled:
            return open(path, mode, *args, **kwargs)  # reads are not fault points of a save

        def do():
            real = open(path, mode, *args, **kwargs)
            self.files[path] = {"written": 0, "synced": 0}
            return _File(self, real, path, mode)

        return self.op("open", path, do)

    def current_name(self, path):
        """Where the file first opened for writing as `path` lives now (None if gone)."""
        cur = path
        seen_open = False
        for kind, src, dst in self.moves:
            if kind == "rename" and src == cur:
                cur = dst
            elif kind == "rename" and dst == cur:
                return None
            elif kind == "remove" and src == cur:
                return None
        del seen_open
        return cur

    def op(self, kind, path, do, **extra):
        if not self.enabled:
            return do()
        idx = self.count
        self.count += 1
        self.trace.append((kind, _os.path.basename(str(path)), extra))
        if self.on_op is not None and not self._in_hook:
            self._in_hook = True
            try:
                self.on_op(idx, kind, _os.path.basename(str(path)))
            finally:
                self._in_hook = False
        plan = self.plan
        if plan.mode == "fail_from" and plan.k is not None and idx >= plan.k:
            # the medium is gone from this point on (unplugged, remounted read-only): every later operation fails too
            plan.fired = True
            raise OSError(plan.errno, f"injected failure of {kind} (op {idx}, everything from op {plan.k} on fails)")
        if plan.k == idx and not plan.fired:
            plan.fired = True
            if plan.mode == "crash_before":
                raise Crash(f"crash before op {idx} {kind}")
            if plan.mode == "fail":
                raise OSError(plan.errno, f"injected failure of {kind} (op {idx})")
            if plan.mode == "crash_after":
                do()
                raise Crash(f"crash after op {idx} {kind}")
        return do()


def survivors(layer, durability):
    """After a crash: directory variants to try, each a {path: bytes} override map.

    'kept': everything written survives (one variant, no overrides).
    'lost': for every file whose written length exceeds its synced length, three
    variants: synced prefix only; cut half way through the unsynced tail; unsynced
    tail zero-filled. Renames/removes are assumed ordered and durable; a renamed file
    keeps its bookkeeping under the new name.
    """
    if durability == "kept":
        return [{}]
    variants = []
    for path, st in layer.files.items():
        cur = layer.current_name(path)
        if cur is None or not _os.path.exists(cur):
            continue
        with open(cur, "rb") as fh:
            data = fh.read()
        synced, written = st["synced"], min(st["written"], len(data))
        if written <= synced:
            continue
        variants.append({cur: data[:synced]})
        mid = synced + (written - synced) // 2
        if mid not in (synced, written):
            variants.append({cur: data[:mid]})
        variants.append({cur: data[:synced] + bytes(written - synced)})
    return variants or [{}]
