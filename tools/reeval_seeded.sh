#!/bin/sh
# re-evaluate every kept seeded change against the current checks (updates meta.json in place)
cd "$(dirname "$0")/.." 2>/dev/null
pat=${1:-"seeded/C*-agent*"}
ls -d $pat | xargs -P ${JOBS:-3} -I{} sh -c 'python3 tools/seeded.py eval {} --seeds 1,2,3 --keep $(basename {}) > /tmp/vf_reeval_$(basename {}).log 2>&1'
for d in $pat; do /venv/bin/python - $d <<'PY'
import json,sys
d=json.load(open(sys.argv[1]+"/meta.json"))["confirmed"]
print(sys.argv[1], d["valid_seed"], [v["verdict"] for v in d["checks"].values()])
PY
done
rm -f /tmp/vf_reeval_C*.log
