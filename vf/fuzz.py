"""Driver for the atheris (libFuzzer) campaigns: one subprocess per campaign, fresh corpus
directory, -seed from VERIF_SEED, -runs bounded; results merged into the Run."""
import glob
import json
import os
import re
import shutil
import subprocess
import tempfile

from vf import common


def _campaign(args):
    target, runs, seed_value, seeded, max_len = args
    out = tempfile.mkdtemp(prefix=f"vf_fuzz_{target}_")
    corpus = os.path.join(out, "corpus")
    os.makedirs(corpus)
    if seeded:
        for path in glob.glob(os.path.join(common.VERIF, "fuzz", f"seeds_{target}", "*")):
            shutil.copy(path, corpus)
    env = dict(os.environ, VF_FUZZ_OUT=out, PYTHONPATH=os.path.join(common.VERIF, ".deps"), PYTHONHASHSEED="0")
    cmd = ["/venv/bin/python", os.path.join(common.VERIF, "fuzz", "target.py"), target, corpus,
           f"-runs={runs}", f"-seed={seed_value or 1}", f"-max_len={max_len}", f"-artifact_prefix={out}/", "-print_final_stats=1"]
    try:
        proc = subprocess.run(cmd, capture_output=True, text=True, env=env, timeout=3600)
        text = proc.stdout + proc.stderr
        result = {"target": target, "seeded": seeded, "returncode": proc.returncode, "violations": [], "evaluations": 0, "nontrivial": [], "samples": [], "cov": None}
        m = re.findall(r"cov: (\d+)", text)
        if m:
            result["cov"] = int(m[-1])
        m = re.search(r"stat::number_of_executed_units: (\d+)", text)
        executed = int(m.group(1)) if m else 0
        stats_path = os.path.join(out, "stats.json")
        if os.path.exists(stats_path):
            st = json.load(open(stats_path, encoding="utf-8"))
            result.update(nontrivial=st["nontrivial"], samples=st["samples"])
        result["evaluations"] = executed
        for path in glob.glob(os.path.join(out, "violation-*.json")):
            result["violations"].append(json.load(open(path, encoding="utf-8")))
        if proc.returncode != 0 and not result["violations"]:
            result["error"] = text[-1500:]
        return result
    finally:
        shutil.rmtree(out, ignore_errors=True)


def available():
    return os.path.isdir(os.path.join(common.VERIF, ".deps", "atheris"))


def run_atheris(run, target, runs, max_len=256):
    """Two campaigns (empty corpus, seeded corpus), merged into run.stats."""
    if not available():
        run.stats.notes.append("atheris not installed (./setup.sh) - coverage-guided campaign skipped")
        return
    jobs = [(target, runs, common.seed(), False, max_len), (target, runs, common.seed() + 1, True, max_len)]
    for res in common.pool_map(_campaign, jobs, procs=2):
        label = f"atheris-{target}-{'seeded' if res['seeded'] else 'empty'}"
        run.stats.evaluations += res["evaluations"]
        run.stats.nontrivial |= set(res["nontrivial"])
        run.stats.label(label + "-executions", res["evaluations"])
        if res.get("cov") is not None:
            run.stats.label(label + "-coverage-edges", res["cov"])
        for s in res["samples"]:
            if len(run.stats.samples) < 6:
                run.stats.samples.append(s)
        for v in res["violations"]:
            run.stats.violation(v["clause"], v["case"], "[atheris] " + v["detail"])
        if res.get("error"):
            raise common.HarnessError(f"atheris campaign {label} failed: {res['error']}")
