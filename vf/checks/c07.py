"""C07 - nothing is sent to a sleeping node outside its wake window."""
from vf.histcheck import HistoryCheck

RULE = (
    "Hypothesis-generated histories over versions 2.0/2.1/2.2 x {sync, async}: 1-3 nodes with children built by "
    "construction, wake-up announcements (the version's own and the other version's), value reports, "
    "value/config/time/id requests FROM sleeping nodes, children presented after the first wake-up, controller "
    "set-value calls (known/unknown child), firmware updates followed by set messages (reboot path), messages "
    "that need a presentation request, firmware requests, traffic of awake nodes interleaved. Every emitted "
    "string is attributed to the step during which it reached the transport. Invariant: destination sleeping "
    "(per reference model) and not a stream response => the step is that node's wake-up announcement; and a "
    "reply owed to a non-sleeping node is emitted in the very step that caused it. Non-trivial = a sleeping node "
    "is owed >= 1 withheld item while another node exchanges traffic before the next wake-up."
)


def nontrivial(case, sess):
    return "sleep-owed-while-other-traffic" in sess.labels and "aborted" not in sess.labels


KINDS = ["node", "child", "child", "set", "set", "set", "req", "req", "time", "config", "idreq", "wake", "wake", "wake", "otherwake", "battery", "sketch", "discover", "cfgreq", "blkreq", "ready"]

CHECK = HistoryCheck(
    "C07", {"sleep"}, RULE,
    dict(versions=("2.0", "2.1", "2.2"), max_ops=35, min_ops=6, frame_kinds=KINDS, op_weights=dict(set=16, fw=5, near=4, raw=2, save=5)),
    nontrivial, quick=(16, 160), thorough=(16, 2500),
    assumptions=["'sleeping' is decided by the reference model: the node announced smart sleep at a moment when it had >= 1 child"],
)
main = CHECK.main
replay = CHECK.replay
