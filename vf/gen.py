"""Hypothesis strategies: payloads per rule, frames, op histories.

Histories are generated state-aware (the generator keeps a light picture of which
nodes/children it has presented) so that deep states - smart sleep, OTA sessions,
re-presentations - are reached by construction rather than by luck. Every case is a
JSON-able dict so that it can be written out as a replay file.
"""
from hypothesis import strategies as st

from vf.ref import codec
from vf.ref import tables as T
from vf.ref import validate as V
from vf.ref import ota as O

NODE_POOL = [1, 2, 3, 0, 254, 255, 77, 253]
CHILD_POOL = [0, 1, 2, 254, 9]

_free_chars = st.characters(exclude_categories=["Cs"], exclude_characters=";\n\r")
free_text = st.text(_free_chars, max_size=10).filter(codec.carriable)
nice_text = st.one_of(
    st.sampled_from(["", "x", "12", "on", "22.5", "héllo", "雪", "a b", "0", "1", "Front Door", "😀", "-3"]),
    free_text,
)

VERSION_STRINGS = ["1.4", "1.5", "2.0", "2.1", "2.2", "2.0.0", "1.4.1", "2.3", "2.2.0", "1.10", "1.5.1", "2.1.1", "3.0"]


def conforming(rule):
    kind = rule[0]
    if kind == "any":
        return nice_text
    if kind == "empty":
        return st.just("")
    if kind == "binary":
        return st.sampled_from(["0", "1"])
    if kind == "int_range":
        return st.one_of(st.sampled_from([rule[1], rule[2]]), st.integers(rule[1], rule[2])).map(str)
    if kind == "float_range":
        lo, hi = rule[1], rule[2]
        return st.one_of(
            st.sampled_from([str(int(lo)), str(int(hi)), repr(lo), repr(hi)]),
            st.integers(int(lo * 100), int(hi * 100)).map(lambda n: f"{n / 100:.2f}"),
        )
    if kind == "integer":
        # (0 - the one falsy number - often enough to meet every handler of an integer payload)
        return st.one_of(st.sampled_from([0, 0, 1, -1]), st.integers(-5, 500), st.integers()).map(str)
    if kind == "empty_or_integer":
        return st.one_of(st.just(""), st.sampled_from(["0", "1"]), st.integers(0, 10 ** 10).map(str))
    if kind == "version":
        return st.sampled_from(VERSION_STRINGS)
    if kind == "position":
        num = st.one_of(st.integers(-180, 180).map(str), st.integers(-18000, 18000).map(lambda n: f"{n / 100:.2f}"))
        return st.tuples(num, num, num).map(",".join)
    if kind == "config":
        return st.one_of(st.sampled_from(["M", "I"]), st.integers(0, 254).map(str))
    if kind == "words":
        return st.sampled_from(list(rule[1]))
    if kind == "hex":
        return st.text("0123456789abcdefABCDEF", min_size=rule[1], max_size=rule[1])
    raise ValueError(rule)


def violating(rule):
    """Payloads with a definite False verdict for the rule (None if none exist)."""
    kind = rule[0]
    from vf.checks.c03 import corpus_for

    bad = [p for p in corpus_for(rule) if codec.carriable(p) and V.payload_verdict(rule, p) is False]
    if kind == "any" or not bad:
        return None
    return st.sampled_from(bad)


class Picture:
    """What the generator believes exists (nodes -> children -> reported value types)."""

    def __init__(self, version):
        self.version = version
        self.nodes = {}
        self.fw = []  # (type, ver) with an image
        self.images = {}  # (type, ver) -> image spec
        self.desired = {}  # (node, child) -> value types the controller asked to change
        self.updating = set()

    def known_nodes(self):
        return sorted(self.nodes)

    def known_children(self, nid):
        return sorted(self.nodes.get(nid, {}))


def _pick_node(draw, pic, want_known=True):
    known = pic.known_nodes()
    if known and (want_known or draw(st.integers(0, 9)) < 7):
        if draw(st.integers(0, 9)) < 9:
            return draw(st.sampled_from(known))
    return draw(st.sampled_from(NODE_POOL))


def _pick_child(draw, pic, nid):
    known = pic.known_children(nid)
    if known and draw(st.integers(0, 9)) < 8:
        return draw(st.sampled_from(known))
    return draw(st.sampled_from(CHILD_POOL))


def frame(fields):
    return codec.encode(fields)[:-1]


@st.composite
def valid_frame(draw, pic, kinds=None):
    """A frame valid for pic.version, by construction. Returns fields."""
    version = pic.version
    kinds = kinds or ["node", "child", "child", "set", "set", "set", "req", "req", "battery", "sketch", "time", "config", "idreq", "ready", "wake", "wake", "otherwake", "discover", "log", "misc", "cfgreq", "blkreq", "stream_misc"]
    kind = draw(st.sampled_from(kinds))
    ack = draw(st.sampled_from([0, 0, 0, 1]))
    if kind == "node":
        nid = draw(st.sampled_from(NODE_POOL)) if draw(st.booleans()) else _pick_node(draw, pic)
        sub = draw(st.sampled_from([17, 18, 17, 17]))
        payload = draw(conforming(T.VERSION))
        if draw(st.integers(0, 9)) == 0:  # odd: child 255 with a sensor type
            sub = draw(st.integers(0, T.MAX_SUB[version][T.PRESENTATION]))
            payload = draw(st.sampled_from(["2.0", "1.4", "", "desc", "...", "1.3"])) if sub not in (17, 18) else payload
        pic.nodes.setdefault(nid, {})
        return (nid, 255, T.PRESENTATION, ack, sub, payload)
    if kind == "sysodd":
        # a presentation on the system child that is NOT a node presentation (sensor type on child 255):
        # accepted by the serial API; its payload ends up where a version string is expected
        nid = _pick_node(draw, pic)
        sub = draw(st.integers(0, T.MAX_SUB[version][T.PRESENTATION]).filter(lambda x: x not in (17, 18)))
        pic.nodes.setdefault(nid, {})
        return (nid, 255, T.PRESENTATION, ack, sub, draw(st.sampled_from(["2.0", "1.4", "", "desc", "...", "1.3", "2.2.0"])))
    if kind == "child":
        nid = _pick_node(draw, pic)
        cid = draw(st.sampled_from(CHILD_POOL))
        sub = draw(st.integers(0, T.MAX_SUB[version][T.PRESENTATION]))
        if nid in pic.nodes:
            pic.nodes[nid].setdefault(cid, set())
        rule = T.payload_rule(version, T.PRESENTATION, sub)
        return (nid, cid, T.PRESENTATION, ack, sub, draw(conforming(rule)))
    if kind in ("set", "req"):
        nid = _pick_node(draw, pic)
        cid = _pick_child(draw, pic, nid)
        top = T.MAX_SUB[version][T.SET]
        reported = sorted(pic.nodes.get(nid, {}).get(cid, set()))
        if kind == "req":
            # requests also go for value types the controller has asked to change (pending desired values)
            reported = sorted(set(reported) | {v for v in pic.desired.get((nid, cid), ()) if v <= top})
        if reported and draw(st.integers(0, 9)) < 6:
            sub = draw(st.sampled_from(reported))
        else:
            sub = draw(st.one_of(st.sampled_from([0, 2, 3, 22, 22, 23, 24, top]), st.integers(0, top)))
        if kind == "req":
            return (nid, cid, T.REQ, ack, sub, "")
        if cid in pic.nodes.get(nid, {}):
            pic.nodes[nid][cid].add(sub)
        return (nid, cid, T.SET, ack, sub, draw(conforming(T.payload_rule(version, T.SET, sub))))
    nid = _pick_node(draw, pic)
    internal = lambda sub, payload=None: (  # noqa: E731
        nid, 255, T.INTERNAL, ack, sub,
        payload if payload is not None else draw(conforming(T.payload_rule(version, T.INTERNAL, sub))),
    )
    if kind == "battery":
        return internal(0)
    if kind == "sketch":
        return internal(draw(st.sampled_from([11, 12])))
    if kind == "time":
        return internal(1)
    if kind == "config":
        return internal(6)
    if kind == "idreq":
        src = draw(st.sampled_from([255, 255, 255, 0, 1]))
        child = draw(st.sampled_from([255, 255, 0, 7]))
        return (src, child, T.INTERNAL, ack, 3, "")
    if kind == "ready":
        return (draw(st.sampled_from([0, 0, 255, 1])), 255, T.INTERNAL, ack, 14, draw(nice_text))
    if kind in ("wake", "otherwake"):
        real = T.wake_sub(version)
        if real is None:
            return internal(draw(st.integers(0, T.MAX_SUB[version][T.INTERNAL])))
        other = 32 if real == 22 else 22
        sub = real if kind == "wake" else other
        if not T.defined(version, T.INTERNAL, sub):
            sub = real
        return internal(sub)
    if kind == "discover":
        sub = 21 if T.defined(version, T.INTERNAL, 21) else 9
        return internal(sub)
    if kind == "log":
        return internal(9)
    if kind == "misc":
        return internal(draw(st.integers(0, T.MAX_SUB[version][T.INTERNAL])))
    if kind == "cfgreq":
        words = [draw(st.integers(0, 3)), draw(st.integers(0, 3)), draw(st.integers(0, 70)), draw(st.integers(0, 65535)), draw(st.integers(0, 300))]
        if pic.images and draw(st.integers(0, 9)) < 4:
            # the node reports exactly a firmware the controller knows (it runs it already)
            from vf.lockstep import image_bytes

            fw = draw(st.sampled_from(sorted(pic.images)))
            img = image_bytes(pic.images[fw])
            total = O.allowed_paddings(len(img))[-1]
            padded = img + bytes([255]) * (total - len(img))
            words = [fw[0], fw[1], total // 16, O.crc16_modbus(padded), draw(st.integers(0, 300))]
        return (nid, 255, T.STREAM, ack, 0, _fw_payload(draw, O.words_hex(*words), 20))
    if kind == "blkreq":
        if pic.fw and draw(st.integers(0, 9)) < 8:
            ftype, fver = draw(st.sampled_from(pic.fw))
        else:
            ftype, fver = draw(st.integers(0, 3)), draw(st.integers(0, 3))
        blk = draw(st.one_of(st.integers(0, 20), st.integers(0, 200), st.sampled_from([0, 7, 8, 15, 16, 65535])))
        return (nid, 255, T.STREAM, ack, 2, _fw_payload(draw, O.words_hex(ftype, fver, blk), 12))
    if kind == "stream_misc":
        return (nid, 255, T.STREAM, ack, draw(st.sampled_from([1, 3, 4, 5])), draw(nice_text))
    raise ValueError(kind)


def _fw_payload(draw, good, size):
    """Mostly the well-formed hex payload, sometimes a malformed variant."""
    pick = draw(st.integers(0, 13))
    if pick < 8:
        return good.upper() if pick == 7 else good
    if pick >= 12:
        # all the right digits, with blanks in front of / between the byte pairs (hex readers that skip blanks)
        sep = draw(st.sampled_from([" ", " ", "\t", "\x0b", "\x0c"]))
        if pick == 12:
            return sep + good
        cuts = sorted(draw(st.sets(st.integers(1, max(1, len(good) // 2 - 1)), min_size=1, max_size=3)))
        out, last = "", 0
        for c in cuts:
            out += good[last:2 * c] + sep
            last = 2 * c
        return out + good[last:]
    if pick == 8:
        return good[: draw(st.integers(0, size - 1))]
    if pick == 9:
        pos = draw(st.integers(0, size - 1))
        return good[:pos] + draw(st.sampled_from(["z", "é", "g", " "])) + good[pos + 1 :]
    if pick == 10:
        return good + draw(st.sampled_from(["0", "00", "0000", "zz"]))
    return draw(st.sampled_from(["", "zz", "éé", "0100", "x" * size]))


@st.composite
def near_valid_frame(draw, pic):
    """A valid frame with exactly one field pushed over a boundary (definite verdict False)."""
    version = pic.version
    for _ in range(4):
        fields = list(draw(valid_frame(pic)))
        which = draw(st.sampled_from(["node", "child", "ack", "sub", "cmd", "payload", "payload", "payload", "child255"]))
        if which == "node":
            fields[0] = draw(st.sampled_from([-1, 256, 1000]))
        elif which == "child":
            fields[1] = draw(st.sampled_from([-1, 256])) if fields[2] in (T.PRESENTATION, T.SET, T.REQ) else draw(st.sampled_from([0, 254, 256]))
        elif which == "ack":
            fields[3] = draw(st.sampled_from([-1, 2, 9]))
        elif which == "sub":
            fields[4] = draw(st.sampled_from([-1, T.MAX_SUB[version][fields[2]] + 1, T.MAX_SUB[version][fields[2]] + 2, 255]))
        elif which == "cmd":
            fields[2] = draw(st.sampled_from([-1, 5, 6]))
        elif which == "child255":
            if fields[2] in (T.SET, T.REQ):
                fields[1] = 255
        elif which == "payload":
            rule = T.payload_rule(version, fields[2], fields[4])
            bad = violating(rule)
            if bad is None and fields[2] in (T.SET, T.PRESENTATION, T.INTERNAL):
                # free-text rule: move to a sub-type of the same command whose payload IS constrained
                # (percentages, binary, words, colours, positions, counters, versions ...)
                constrained = [s for s in range(T.MAX_SUB[version][fields[2]] + 1) if violating(T.payload_rule(version, fields[2], s)) is not None]
                if constrained:
                    fields[4] = draw(st.sampled_from(constrained))
                    if fields[2] == T.PRESENTATION and T.payload_rule(version, fields[2], fields[4])[0] == "version":
                        fields[1] = 255
                    bad = violating(T.payload_rule(version, fields[2], fields[4]))
            if bad is not None:
                fields[5] = draw(bad)
        if V.validate(version, tuple(fields)) is False:
            return tuple(fields)
    return (-1, 0, 0, 0, 0, "")


wild_payload = st.one_of(
    st.text(st.characters(exclude_categories=["Cs"], exclude_characters=";\n\r"), max_size=24).filter(codec.carriable),
    st.sampled_from(["zz", "0100", "éé", "00" * 10, "0" * 19, "01000100", "010001000000", "FFFFFFFFFFFF", "1,2,3", "1,2", "nan", "inf", "-1", "256", "1e3", "+5", " 5", "٣", "2.0.0", "1.4-beta", "latest", "x" * 3000, "%s", "{0}", "\\", "\x00", "None"]),
    st.text("0123456789abcdefABCDEF", max_size=26),
    st.integers(-10 ** 20, 10 ** 20).map(str),
)

HUGE_NUMBERS = ["L" * 70000, "9" * 4301, "1.4." + "9" * 4301, "2." + "0" * 4400 + "1", "-" + "1" * 4400, "1" * 4300, "0" * 5000, "1e" + "9" * 4400, "9" * 4301 + ".5", "7" * 20000]

GARBAGE = ["", ";", ";;;;;", "1;2;3", "1;2;3;4;5", "1;2;3;4;5;6;7", "a;b;c;d;e;f", "1;255;3;0;x;", "hello", "1;1;1;0;", "\x00", "1;1;1;0;2;1;", "1.0;1;1;0;2;1", "１;1;1;0;2"]


@st.composite
def raw_line(draw, pic):
    pick = draw(st.integers(0, 3))
    if pick == 0:
        return draw(st.sampled_from(GARBAGE))
    if pick == 1:
        good = frame(draw(valid_frame(pic)))
        return good[: draw(st.integers(0, max(0, len(good) - 1)))]
    if pick == 2:
        return draw(st.text(st.characters(exclude_categories=["Cs"], exclude_characters="\n"), max_size=20))
    parts = [str(draw(st.integers(-2, 300))) for _ in range(draw(st.sampled_from([3, 4, 5, 7])))]
    return ";".join(parts)


def definite(version, text):
    """Is the model able to follow this line (malformed, or definite verdict)?"""
    try:
        fields = codec.decode(text)
    except codec.Malformed:
        return True
    return V.validate(version, fields) is not None


@st.composite
def controller_set(draw, pic, wire_carriable=True, wild=False):
    nid = _pick_node(draw, pic)
    cid = _pick_child(draw, pic, nid)
    version = pic.version
    top = T.MAX_SUB[version][T.SET]
    reported = sorted(pic.nodes.get(nid, {}).get(cid, set()))
    if reported and draw(st.integers(0, 9)) < 7:
        vt = draw(st.sampled_from(reported))
    else:
        vt = draw(st.one_of(st.sampled_from([2, 3, 22, 22, 24, 40, 47]), st.integers(0, top + 1)))
    vt = min(vt, top + 1)
    rule = T.payload_rule(version, T.SET, vt) if vt <= top else T.ANY
    choice = draw(st.integers(0, 11))
    if choice == 11:
        # the one value type whose rule depends on the version (binary in 1.4, speed words later)
        vt = 22
        value = draw(st.sampled_from(["0", "1", "Auto", "Min", "Max"]))
    elif choice < 6:
        value = draw(conforming(rule))
    elif choice < 8:
        bad = violating(rule)
        value = draw(bad) if bad is not None else draw(conforming(rule))
    elif choice == 8:
        # conforming under ANOTHER version's rule for this value type (version-dependent types)
        other = draw(st.sampled_from(T.VERSIONS))
        orule = T.payload_rule(other, T.SET, vt) if vt <= T.MAX_SUB[other][T.SET] else rule
        value = draw(conforming(orule))
    else:
        value = draw(free_text if wire_carriable else st.text(st.characters(exclude_categories=["Cs"]), max_size=8))
    if rule[0] == "any" and isinstance(value, str) and "\n" not in value and draw(st.integers(0, 7)) == 0:
        value = value + draw(st.sampled_from([" ", "   ", "\t"]))  # blank-padded text (an LCD line): sent as it is
    if draw(st.integers(0, 9)) == 0 and V._CANON_INT.match(value) and len(value) < 6:  # pylint: disable=protected-access
        value = int(value)  # numbers are allowed as values
    pic.desired.setdefault((nid, cid), set()).add(vt)
    op = {"op": "set", "n": nid, "c": cid, "vt": vt, "value": value}
    if draw(st.integers(0, 5)) == 0:
        op["ack"] = draw(st.sampled_from([0, 1, 1, 2]))
    if draw(st.integers(0, 9)) == 0:
        # the msg_type keyword: ask the node to report (req, empty value) - or, rarely, a req with a value
        # (refused) / an explicit set
        op["msg_type"] = draw(st.sampled_from([2, 2, 2, 1]))
        op["mt_kind"] = draw(st.sampled_from(["int", "enum"]))
        if op["msg_type"] == 2 and draw(st.integers(0, 4)) > 0:
            op["value"] = ""
    if wild:
        kind = draw(st.sampled_from(["int", "int", "str", "enum"]))
        if kind == "enum" and vt > top:
            kind = "int"
        op["vt_kind"] = kind
    return op


@st.composite
def fw_update(draw, pic, max_len=200):
    known = pic.known_nodes()
    nids = draw(st.one_of(
        st.sampled_from(known) if known else st.sampled_from(NODE_POOL),
        st.lists(st.sampled_from(known + [99]) if known else st.sampled_from(NODE_POOL), min_size=1, max_size=3, unique=True),
    ))
    ftype, fver = draw(st.integers(0, 2)), draw(st.integers(0, 2))
    if draw(st.integers(0, 11)) == 0:
        return {"op": "fw", "nids": nids, "type": ftype, "ver": draw(st.integers(3, 9)), "image": None, "bad_path": draw(st.sampled_from(["missing", "garbage", "empty", "eof_only"]))}
    if draw(st.integers(0, 14)) == 0:
        # the edges of the 16-bit words type and version travel in - and ids beyond them, which no node can ask for
        edge = draw(st.sampled_from([65535, 65535, 65536, 70000, -1]))
        if draw(st.booleans()):
            ftype = edge
        else:
            fver = edge
        return {"op": "fw", "nids": nids, "type": ftype, "ver": fver, "image": {"len": draw(st.sampled_from([1, 40, 129])), "seed": 3, "fill": "random"}}
    if pic.fw and draw(st.integers(0, 9)) < 5:
        ftype, fver = draw(st.sampled_from(pic.fw))  # re-issue an update for firmware already stored
    image = None
    if draw(st.integers(0, 9)) < 7 or not pic.fw:
        length = draw(st.one_of(st.sampled_from([1, 15, 16, 17, 127, 128, 129]), st.integers(1, max_len)))
        image = {"len": length, "seed": draw(st.integers(0, 999)), "fill": draw(st.sampled_from(["random", "random", "zero", "ff", "lastff"]))}
        if (ftype, fver) not in pic.fw:
            pic.fw.append((ftype, fver))
        pic.images[(ftype, fver)] = image
    op = {"op": "fw", "nids": nids, "type": ftype, "ver": fver, "image": image}
    if image is not None and draw(st.integers(0, 3)) == 0:
        op["via_path"] = True  # through update_fw(fw_path=<Intel-HEX file>)
    if draw(st.integers(0, 4)) == 0:
        op["tv_kind"] = draw(st.sampled_from(["str", "str", "float"]))  # type / version given as "1" or 1.0
    return op


@st.composite
def histories(draw, versions=T.VERSIONS, max_ops=30, invalid=True, controller=True, ota=True,
              cb_raise=True, wire_carriable=True, wild_vt=False, frame_kinds=None, min_ops=1, op_weights=None, allow_unpinned=False,
              flavours=("sync", "sync", "async"), respell=True):
    version = draw(st.sampled_from(list(versions)))
    pic = Picture(version)
    n_ops = draw(st.integers(min_ops, max_ops))
    ops = []
    # prologue: a small network, built by construction (skipped now and then)
    if draw(st.integers(0, 9)) < 9:
        for nid in draw(st.lists(st.sampled_from(NODE_POOL), min_size=1, max_size=3, unique=True)):
            if draw(st.integers(0, 9)) < 9:
                vstr = draw(st.sampled_from(["1.4", "1.4.1", "1.5", version]) if draw(st.booleans()) else st.sampled_from(VERSION_STRINGS))
                ops.append({"op": "line", "text": frame((nid, 255, T.PRESENTATION, 0, 17, vstr))})
                pic.nodes.setdefault(nid, {})
            else:
                ops.append({"op": "line", "text": "255;255;3;0;3;"})  # node known through id assignment only
            for cid in draw(st.lists(st.sampled_from(CHILD_POOL), max_size=3, unique=True)):
                sub = draw(st.integers(0, T.MAX_SUB[version][T.PRESENTATION]))
                ops.append({"op": "line", "text": frame((nid, cid, T.PRESENTATION, 0, sub, draw(conforming(T.payload_rule(version, T.PRESENTATION, sub)))))})
                if nid in pic.nodes:
                    pic.nodes[nid].setdefault(cid, set())
                for _ in range(draw(st.integers(0, 2))):
                    ops.append({"op": "line", "text": frame(draw(valid_frame(pic, ["set"])))})
            wake = T.wake_sub(version)
            if wake is not None and draw(st.booleans()):
                ops.append({"op": "line", "text": frame((nid, 255, T.INTERNAL, 0, wake, "5"))})
    weights = dict(valid=62, near=10 if invalid else 0, raw=6 if invalid else 0, set=12 if controller else 0,
                   fw=4 if ota else 0, metric=2, cb_raise=2 if cb_raise else 0, clock=2, wild=0, save=0, desire=3 if controller else 0, race=0, confirm=2 if controller else 0, otaflow=2 if ota else 0, burst=3, restart=0, neighbour=2, latechild=2)
    weights.update(op_weights or {})
    if weights.get("save") and "restart" not in (op_weights or {}):
        weights["restart"] = 2  # histories on a gateway with a persistence file also span clean restarts
        if cb_raise:
            weights["cbsave"] = 2
    table = [k for k, w in weights.items() for _ in range(w)]
    pic2 = None
    for _ in range(n_ops):
        roll = draw(st.sampled_from(table))
        if roll == "valid":
            text = frame(draw(valid_frame(pic, frame_kinds)))
            if respell and draw(st.integers(0, 11)) == 0:
                # the same message in another spelling int() accepts: '+5', '05', ' 5', '5 ', '1_7', '-0'
                parts = text.split(";")
                k = draw(st.integers(0, 4))
                n = parts[k]
                options = ["+" + n, "0" + n, " " + n, n + " ", "\t" + n] + (["-0"] if n == "0" else []) + ([n[0] + "_" + n[1:]] if len(n) >= 2 else [])
                parts[k] = draw(st.sampled_from(options))
                text = ";".join(parts)
            ops.append({"op": "line", "text": text})
        elif roll == "near":
            ops.append({"op": "line", "text": frame(draw(near_valid_frame(pic)))})
        elif roll == "raw":
            text = draw(raw_line(pic))
            if not definite(version, text) and not allow_unpinned:
                text = "1;2;3"
            ops.append({"op": "line", "text": text})
        elif roll == "wild":
            if draw(st.integers(0, 3)) == 0:
                # numbers longer than Python's int <-> str conversion limit (4300 digits), on frames whose payload
                # is parsed as a number or a version somewhere
                fields = list(draw(valid_frame(pic, ["sysodd", "sysodd", "node", "battery", "sketch", "set", "child", "misc", "wake", "config"])))
                fields[5] = draw(st.sampled_from(HUGE_NUMBERS))
            else:
                fields = list(draw(valid_frame(pic, frame_kinds)))
                fields[5] = draw(wild_payload)
            ops.append({"op": "line", "text": frame(tuple(fields))})
        elif roll == "set":
            ops.append(draw(controller_set(pic, wire_carriable, wild_vt)))
        elif roll == "fw":
            ops.append(draw(fw_update(pic)))
        elif roll == "desire":
            # template: the controller asks to change a value, the node requests that value type, then wakes up
            cands = [(n, c) for n in pic.known_nodes() for c in pic.known_children(n)]
            if cands:
                nid, cid = draw(st.sampled_from(cands))
                vt = draw(st.sampled_from([0, 1, 24, 25, 28, 32, 2, 3]))
                value = draw(conforming(T.payload_rule(version, T.SET, vt)))
                if T.payload_rule(version, T.SET, vt)[0] == "any" and draw(st.integers(0, 2)) == 0:
                    value = value + draw(st.sampled_from([" ", "    ", "\t"]))  # blank-padded text: answered and pushed as it is
                if not wire_carriable and draw(st.integers(0, 2)) == 0:
                    # text the controller may pass but the wire cannot carry back unchanged: it is sent as it is
                    vt, value = 24, draw(st.sampled_from(["line one; line two", "a;b", ";", ";;1;2", "padded   ", " x; y "]))
                ops.append({"op": "set", "n": nid, "c": cid, "vt": vt, "value": value})
                pic.desired.setdefault((nid, cid), set()).add(vt)
                if draw(st.integers(0, 3)) > 0:
                    ops.append({"op": "line", "text": frame((nid, cid, T.REQ, draw(st.integers(0, 1)), vt, ""))})
                wake = T.wake_sub(version)
                if wake is not None and draw(st.booleans()):
                    ops.append({"op": "line", "text": frame((nid, 255, T.INTERNAL, 0, wake, "7"))})
        elif roll == "otaflow":
            # template: schedule an update, let the node ask for the config and then for blocks at the edges
            known = pic.known_nodes()
            strangers = [n for n in NODE_POOL if n not in pic.nodes and 0 < n < 255]
            if strangers and draw(st.integers(0, 2)) == 0:
                # the update names a node the gateway does not know (yet): that call schedules nothing, also not
                # for later, when a node with that id appears
                nid = draw(st.sampled_from(strangers))
                image = {"len": 40, "seed": draw(st.integers(0, 99)), "fill": "random"}
                ftype, fver = draw(st.integers(0, 2)), draw(st.integers(0, 2))
                ops.append({"op": "fw", "nids": draw(st.sampled_from([nid, [nid], [nid, 99]])), "type": ftype, "ver": fver, "image": image})
                if (ftype, fver) not in pic.fw:
                    pic.fw.append((ftype, fver))
                pic.images[(ftype, fver)] = image
                ops.append({"op": "line", "text": frame((nid, 255, T.PRESENTATION, 0, 17, "2.0"))})
                pic.nodes.setdefault(nid, {})
                ops.append({"op": "line", "text": frame((nid, 255, T.STREAM, 0, 0, O.words_hex(9, 9, 1, 2, 3)))})
                ops.append({"op": "line", "text": frame((nid, 255, T.STREAM, 0, 2, O.words_hex(ftype, fver, 0)))})
            elif known:
                nid = draw(st.sampled_from(known))
                length = draw(st.sampled_from([1, 16, 100, 128, 129, 200]))
                image = {"len": length, "seed": draw(st.integers(0, 99)), "fill": "random"}
                ftype, fver = draw(st.integers(0, 2)), draw(st.integers(0, 2))
                ops.append({"op": "fw", "nids": [nid], "type": ftype, "ver": fver, "image": image})
                if (ftype, fver) not in pic.fw:
                    pic.fw.append((ftype, fver))
                pic.images[(ftype, fver)] = image
                ops.append({"op": "line", "text": frame((nid, 255, T.STREAM, 0, 0, O.words_hex(9, 9, 1, 2, 3)))})
                blocks = O.allowed_paddings(length)[-1] // 16
                for _ in range(draw(st.integers(1, 3))):
                    blk = draw(st.sampled_from([0, blocks - 1, blocks, blocks + 1, 65535, blocks // 2]))
                    ops.append({"op": "line", "text": frame((nid, 255, T.STREAM, 0, 2, O.words_hex(ftype, fver, blk)))})
        elif roll == "confirm":
            # template: the node reports X, sleeps, the controller asks for Y, the node reports X AGAIN
            # (an unchanged periodic report is still a report of that value type), then wakes up
            cands = [(n, c) for n in pic.known_nodes() for c in pic.known_children(n)]
            wake = T.wake_sub(version)
            if cands and wake is not None:
                nid, cid = draw(st.sampled_from(cands))
                vt = draw(st.sampled_from([0, 1, 24, 3, 2]))
                rule = T.payload_rule(version, T.SET, vt)
                x, y = draw(conforming(rule)), draw(conforming(rule))
                wline = frame((nid, 255, T.INTERNAL, 0, wake, "7"))
                ops.append({"op": "line", "text": frame((nid, cid, T.SET, 0, vt, x))})
                ops.append({"op": "line", "text": wline})
                ops.append({"op": "set", "n": nid, "c": cid, "vt": vt, "value": y})
                ops.append({"op": "line", "text": frame((nid, cid, T.SET, 0, vt, x))})
                if draw(st.booleans()):
                    ops.append({"op": "line", "text": frame((nid, cid, T.REQ, 0, vt, ""))})
                ops.append({"op": "line", "text": wline})
                if nid in pic.nodes and cid in pic.nodes[nid]:
                    pic.nodes[nid][cid].add(vt)
        elif roll == "race":
            # template: a node with a pending desired value wakes up, and while its burst is being
            # queued the controller sets another value of the same child (see C01 race_set)
            cands = [(n, c) for n in pic.known_nodes() for c in pic.known_children(n)]
            wake = T.wake_sub(version)
            if cands and wake is not None:
                nid, cid = draw(st.sampled_from(cands))
                wline = frame((nid, 255, T.INTERNAL, 0, wake, "7"))
                ops.append({"op": "line", "text": frame((nid, cid, T.SET, 0, 24, "r1"))})
                ops.append({"op": "line", "text": wline})
                ops.append({"op": "set", "n": nid, "c": cid, "vt": 24, "value": "r2"})
                ops.append({"op": "race_set", "n": nid, "c": cid, "vt": draw(st.sampled_from([25, 26, 0, 24])), "value": "r3", "at": draw(st.integers(0, 2)), "then": wline})
        elif roll == "burst":
            # several lines in one read: all are queued before the first queued job runs
            kinds = ["set", "set", "req", "battery", "sketch", "child", "node", "config", "time", "log"]
            frames = []
            strangers = [n for n in NODE_POOL if n not in pic.nodes and 0 < n < 255]
            if len(strangers) >= 2 and draw(st.booleans()):
                # traffic from two nodes the gateway does not know (>= 2.0: one presentation request each)
                for nid in draw(st.permutations(strangers))[:2]:
                    vt = draw(st.sampled_from([0, 2, 24]))
                    frames.append((nid, draw(st.sampled_from(CHILD_POOL)), T.SET, 0, vt, draw(conforming(T.payload_rule(version, T.SET, vt)))))
            for _ in range(draw(st.integers(0 if frames else 2, 3))):
                frames.append(draw(valid_frame(pic, kinds)))
            ops.append({"op": "burst", "texts": [frame(f) for f in frames]})
        elif roll == "neighbour":
            # another gateway object of the same process handles a line of its own network
            if pic2 is None:
                pic2 = Picture(version)
            ops.append({"op": "nline", "text": frame(draw(valid_frame(pic2)))})
        elif roll == "save":
            ops.append({"op": "save"})
        elif roll == "latechild":
            # template: a node that already sleeps presents one more child, reports a value for it and asks
            # for that value before its next wake-up (the reply is owed at that wake-up)
            cands = [n for n in pic.known_nodes() if pic.known_children(n) and 0 < n < 255]
            wake = T.wake_sub(version)
            if cands and wake is not None:
                nid = draw(st.sampled_from(cands))
                fresh = [c for c in CHILD_POOL + [3, 4, 5] if c not in pic.known_children(nid)]
                if fresh:
                    cid = draw(st.sampled_from(fresh))
                    vt = draw(st.sampled_from([0, 2, 3, 24]))
                    wline = frame((nid, 255, T.INTERNAL, 0, wake, "7"))
                    ops.append({"op": "line", "text": wline})
                    ops.append({"op": "line", "text": frame((nid, cid, T.PRESENTATION, 0, 6, "late"))})
                    ops.append({"op": "line", "text": frame((nid, cid, T.SET, 0, vt, draw(conforming(T.payload_rule(version, T.SET, vt)))))})
                    ops.append({"op": "line", "text": frame((nid, cid, T.REQ, 0, vt, ""))})
                    if draw(st.booleans()):
                        ops.append({"op": "set", "n": nid, "c": cid, "vt": vt, "value": draw(conforming(T.payload_rule(version, T.SET, vt)))})
                    ops.append({"op": "line", "text": wline})
                    pic.nodes[nid].setdefault(cid, set()).add(vt)
        elif roll == "cbsave":
            # template: everything is saved, then reports arrive while the user's callback raises, then the
            # process restarts: what was accepted must be in the file all the same
            ops.append({"op": "save"})
            ops.append({"op": "cb_raise", "value": True})
            for _ in range(draw(st.integers(1, 3))):
                ops.append({"op": "line", "text": frame(draw(valid_frame(pic, ["set", "battery", "sketch", "child", "node"])))})
            ops.append({"op": "restart"})
            pic.fw, pic.images = [], {}
            pic.desired = {}
            ops.append({"op": "cb_raise", "value": draw(st.booleans())})
        elif roll == "restart":
            ops.append({"op": "restart"})
            pic.fw, pic.images = [], {}
            pic.desired = {}
        elif roll == "metric":
            ops.append({"op": "metric", "value": draw(st.booleans())})
        elif roll == "cb_raise":
            ops.append({"op": "cb_raise", "value": draw(st.booleans())})
        else:
            t = draw(st.tuples(st.integers(1971, 2037), st.integers(1, 12), st.integers(1, 28), st.integers(0, 23), st.integers(0, 59), st.integers(0, 59)))
            ops.append({"op": "clock", "t": list(t), "dst": draw(st.sampled_from([0, 1, -1]))})
    case = {"version": version, "flavour": draw(st.sampled_from(list(flavours))), "ops": ops}
    if draw(st.integers(0, 4)) == 0:
        # the same protocol version, written the way an application may write it
        major, minor = version.split(".")
        case["gw_version"] = draw(st.sampled_from([version + ".0", version + ".1", version + ".9", float(version), f"{major}.{minor}.0"]))
    if weights.get("save"):
        case["persist"] = draw(st.sampled_from(["pickle", "json"]))
    return case
