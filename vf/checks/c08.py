"""C08 - withheld traffic reaches the sleeping node exactly once, in order."""
from vf.histcheck import HistoryCheck

RULE = (
    "Hypothesis-generated histories over versions 2.0/2.1/2.2 x {sync, async}: nodes whose presented version is "
    "equal to / older than the gateway's / never presented (id assignment only), several withheld items between "
    "wake-ups, controller set-value calls with value type as int / IntEnum / numeric str and values that are "
    "rule-conforming, rule-violating or arbitrary text, value types the node has / has not reported, node "
    "confirmations, children presented after the first wake-up, value requests while a desired value is pending. "
    "At every wake-up step the transport log must equal: withheld replies (FIFO) then, in any order, one set per "
    "(child, value type) with a pending desired value whose type the node has reported; queue empty afterwards; "
    "a refused call changes nothing; a plainly valid call must be accepted; no wake-up or request may raise. "
    "Non-trivial = >= 2 withheld items at one wake-up, or a desired value re-sent at >= 2 wake-ups, or a set-value "
    "call on a sleeping node whose presented version differs from the gateway's."
)


def nontrivial(case, sess):
    labels = sess.labels
    return ("wake-held>=2" in labels or "wake-desired-resent" in labels or "set-sleeping-version-mismatch" in labels) and "aborted" not in labels


KINDS = ["node", "child", "child", "set", "set", "set", "set", "req", "req", "req", "time", "config", "wake", "wake", "wake", "wake", "otherwake", "battery"]

CHECK = HistoryCheck(
    "C08", {"wake"}, RULE,
    dict(versions=("2.0", "2.1", "2.2"), max_ops=35, min_ops=6, frame_kinds=KINDS, wild_vt=True, op_weights=dict(set=24, fw=3, near=3, raw=1, save=4)),
    nontrivial, quick=(16, 160), thorough=(16, 2500),
    assumptions=[
        "reference model: hold queue FIFO, desired map keyed by (child, int value type), reported set per child",
        "order among the desired-value set commands of one burst is not pinned by the statement and not compared",
    ],
)
main = CHECK.main
replay = CHECK.replay
