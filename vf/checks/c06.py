"""C06 - node ids are never handed out twice."""
import glob
import json
import os

from hypothesis import strategies as st

from vf import common, gen, persist
from vf.common import Violation
from vf.ref import codec

PROP = "C06"
RULE = (
    "Hypothesis-generated operation sequences (<= 60 ops) on a gateway with persistence ({json, pickle} x 5 "
    "versions): id requests from different requesters, presentations of arbitrary node ids 0..255 (biased to "
    "0, 1, 253, 254, 255 and to max+1), other traffic, periodic-save ticks (fake timer fired by the harness; some of them refused because the storage is not writable at that moment, or failing with an I/O error at a drawn file operation) and "
    "stop()/restart cycles (new gateway object on the same file, start_persistence()). History invariant over "
    "the emitted lines: every id response carries 1 <= id <= 254, id not among the nodes known at that moment (the gateway's table) nor among the nodes that presented themselves since the last restart (tracked by the harness), "
    "id not handed out earlier in the whole history including previous lifetimes; a request may stay unanswered "
    "only when the largest known id is 254 or more. Non-trivial = >= 2 id requests separated by a presentation "
    "that jumps the id space or by a restart; distinct by hash of the sequence."
)


@st.composite
def cases(draw):
    version = draw(st.sampled_from(common.VERSIONS))
    ext = draw(st.sampled_from(["json", "pickle"]))
    n = draw(st.integers(2, 40))
    ops = []
    high = 0
    for _ in range(n):
        roll = draw(st.integers(0, 99))
        if roll < 40:
            ops.append({"op": "idreq", "src": draw(st.sampled_from([255, 255, 255, 0, 1, 7])), "child": draw(st.sampled_from([255, 255, 0, 3]))})
            high += 1
        elif roll < 58:
            nid = draw(st.one_of(st.sampled_from([0, 1, 2, 253, 254, 255, high + 1, high + 2, high + 10]), st.integers(0, 255)))
            nid = min(nid, 255)
            high = max(high, nid if nid < 255 else high)
            ops.append({"op": "line", "text": f"{nid};255;0;0;17;{draw(st.sampled_from(['1.4', '2.0', '2.2']))}"})
        elif roll < 70:
            nid = draw(st.integers(0, 6))
            text = draw(st.sampled_from([f"{nid};1;0;0;6;t", f"{nid};1;1;0;0;21", f"{nid};255;3;0;0;55", f"{nid};255;3;0;11;sk", "0;255;3;0;14;ready", "x;y",
                                        # smart sleep: wake-up announcements (2.0/2.1 and 2.2 style) and requests whose reply is then withheld
                                        f"{nid};255;3;0;22;7", f"{nid};255;3;0;32;500", f"{nid};1;2;0;0;", f"{nid};255;3;0;6;0", f"{nid};255;3;0;1;"]))
            ops.append({"op": "line", "text": text})
        elif roll < 79:
            ops.append({"op": "tick"})
        elif roll < 83:
            # a periodic save that is refused / fails: storage not writable at that moment, or an I/O error
            ops.append({"op": "tick_fault", "how": draw(st.sampled_from(["denied", "denied", "oserror"])), "k": draw(st.integers(0, 6))})
        else:
            ops.append({"op": "restart"})
    if draw(st.integers(0, 3)) == 0:
        # an id is handed out, then start_persistence() is called a second time, nothing else happens, clean restart
        ops += [{"op": "tick"}, {"op": "idreq", "src": 255, "child": 255}, {"op": "start_again"}, {"op": "restart"}, {"op": "idreq", "src": 255, "child": 255}]
    if draw(st.booleans()):
        # force the classic shape: request, clean restart, request
        ops += [{"op": "idreq", "src": 255, "child": 255}, {"op": "restart"}, {"op": "idreq", "src": 255, "child": 255}]
    if draw(st.integers(0, 3)) == 0:
        # ids handed out while a sleeping node has a reply waiting for it (that reply is part of what gets saved)
        ops += [{"op": "line", "text": t} for t in ("5;255;0;0;17;2.0", "5;1;0;0;6;t", "5;1;1;0;0;21", "5;255;3;0;22;7", "5;255;3;0;32;500", "5;1;2;0;0;", "5;255;3;0;6;0")]
        if draw(st.booleans()):
            # the sleeping node itself asks for an id: the response waits for its wake-up, is delivered there,
            # and must not come a second time after a restart
            # only the version's own wake-up announcement (in 2.2 a heartbeat response is an ordinary report)
            wakes = [{"op": "line", "text": "5;255;3;0;32;500" if version == "2.2" else "5;255;3;0;22;8"}]
            ops += [{"op": "idreq", "src": 5, "child": 255}, {"op": "tick"}] + wakes + [{"op": "restart"}] + wakes
        ops += [{"op": "idreq", "src": 255, "child": 255}, {"op": draw(st.sampled_from(["tick", "restart"]))}, {"op": "restart"}, {"op": "idreq", "src": 255, "child": 255}]
    return {"version": version, "ext": ext, "ops": ops, "dir": draw(st.sampled_from(["", "", "conf.d", ".config", "gateway.bak"]))}


def check_case(case, stats=None):
    version = case["version"]
    handed = []  # (id, lifetime)
    parked = {}  # id -> requester: responses withheld because the requester is a sleeping node
    announced = set()  # nodes whose own presentation (types 17 / 18) arrived since the last restart
    lifetime = 0
    requests = 0
    separated = False
    barrier_since_request = False
    with persist.Scratch() as tmp, persist.TimerPatch() as fake:
        path = os.path.join(tmp, f"net.{case['ext']}")
        if case.get("dir"):
            # the persistence file lives below a directory with a dot in its own name
            os.makedirs(os.path.join(tmp, case["dir"]))
            path = os.path.join(tmp, case["dir"], f"net.{case['ext']}")
        life = persist.Lifetime(fake, version, path)
        for i, op in enumerate(case["ops"]):
            kind = op["op"]
            if kind == "tick":
                res = life.tick()
                if isinstance(res, Exception):
                    if stats is not None:
                        stats.label("foreign:tick-raises")
                    return
            elif kind == "tick_fault":
                from vf import faultfs

                layer = faultfs.Layer(deny_access=range(64)) if op["how"] == "denied" else faultfs.Layer(faultfs.FaultPlan(op["k"], "fail"))
                with layer:
                    life.tick()  # whatever the schedule does with the failure: ids must stay unique afterwards
            elif kind == "start_again":
                life.start()  # the application calls start_persistence() once more on the running gateway
            elif kind == "restart":
                try:
                    life.stop()
                except Exception as exc:  # pylint: disable=broad-except
                    raise Violation(f"stop_raises.{type(exc).__name__}", case, f"step {i}: the clean stop raised {type(exc).__name__}: {exc} (ids handed out so far: {handed})") from exc
                lifetime += 1
                life = persist.Lifetime(fake, version, path)
                barrier_since_request = True
                parked.clear()  # withheld replies are transient: they do not survive a restart
                announced.clear()
            elif kind == "line":
                before = set(life.gw.sensors)
                step = life.driver.line(op["text"])
                if step.exc is not None:
                    if stats is not None:
                        stats.label("foreign:pump-crash")
                    return
                f = codec.decode(op["text"]) if op["text"].count(";") == 5 and op["text"].split(";")[0].isdigit() else None
                if f is not None and f[1:3] == (255, 0) and f[4] in (17, 18):
                    announced.add(f[0])  # a node that presented itself during this lifetime is known - whatever the gateway's table says
                grown = set(life.gw.sensors) - before
                if grown and max(grown) > (max(before) if before else 0) + 1:
                    barrier_since_request = True
                for line in step.sent:
                    f = codec.decode(line)
                    if f[2] == 3 and f[4] == 4:
                        if f[5].isdigit() and int(f[5]) in parked:
                            del parked[int(f[5])]  # the withheld response reaches its requester at the wake-up, once
                            continue
                        raise Violation("id_response_unrequested", case, f"step {i} {op}: emitted id response {line!r} without an id request (withheld responses still owed: {parked}; handed out earlier: {handed})")
            elif kind == "idreq":
                known = set(life.gw.sensors)
                step = life.driver.line(f"{op['src']};{op['child']};3;0;3;")
                if step.exc is not None:
                    if stats is not None:
                        stats.label("foreign:pump-crash")
                    return
                responses = []
                for line in step.sent:
                    f = codec.decode(line)
                    if f[2] == 3 and f[4] == 4:
                        responses.append(f)
                requester = life.gw.sensors.get(op["src"])
                grown = sorted(set(life.gw.sensors) - known)
                if not responses and len(grown) == 1 and requester is not None and requester.is_smart_sleep_node:
                    # the requester sleeps: the id is allocated now, its response is withheld until the wake-up
                    responses = [(op["src"], op["child"], 3, 0, 4, str(grown[0]))]
                    parked[grown[0]] = op["src"]
                if len(responses) > 1:
                    raise Violation("several_id_responses", case, f"step {i}: one id request got {len(responses)} id responses")
                if requests and barrier_since_request:
                    separated = True
                requests += 1
                barrier_since_request = False
                if not responses:
                    if (max(known) if known else 0) < 254:
                        raise Violation("id_request_unanswered", case, f"step {i}: id request unanswered although the largest known id is {max(known) if known else 0}")
                    continue
                payload = responses[0][5]
                if not (payload.isascii() and payload.isdigit()):
                    raise Violation("id_not_numeric", case, f"step {i}: id response payload {payload!r}")
                new_id = int(payload)
                where = f"step {i} (lifetime {lifetime}): id response {new_id}; known nodes {sorted(known)}; handed out earlier {handed}"
                if not 1 <= new_id <= 254:
                    raise Violation("id_out_of_range", case, where)
                if new_id in known:
                    raise Violation("id_of_known_node", case, where)
                if new_id in announced:
                    raise Violation("id_of_presented_node", case, where + f"; nodes that presented themselves since the last restart {sorted(announced)}")
                if new_id in [h[0] for h in handed]:
                    prev = [h for h in handed if h[0] == new_id][0]
                    clause = "id_handed_out_twice_across_restart" if prev[1] != lifetime else "id_handed_out_twice"
                    raise Violation(clause, case, where)
                handed.append((new_id, lifetime))
        try:
            life.stop()
        except Exception as exc:  # pylint: disable=broad-except
            raise Violation(f"stop_raises.{type(exc).__name__}", case, f"the final clean stop raised {type(exc).__name__}: {exc} (ids handed out: {handed})") from exc
    if stats is not None:
        stats.case(
            common.chash(case) if (requests >= 2 and separated) else None,
            {"version": version, "ext": case["ext"], "ops": case["ops"][:14], "n_ops": len(case["ops"]), "handed_out": handed},
            labels=[case["ext"], f"lifetimes>={min(lifetime + 1, 3)}", f"ids>={min(len(handed), 3)}"],
        )


def _shard(args):
    seed_value, n = args
    common.setup_path()
    stats = common.Stats()
    common.run_given(stats, cases(), lambda c: check_case(c, stats), n, seed_value, shrink=False)
    out = []
    for v in stats.violations:
        clause = v["clause"]

        def fails(ops, case=v["case"], clause=clause):
            try:
                check_case(dict(case, ops=ops))
            except Violation as vv:
                return vv.clause == clause
            return False

        ops = common.ddmin(v["case"]["ops"], fails)
        small = dict(v["case"], ops=ops)
        detail = v["detail"]
        try:
            check_case(small)
        except Violation as vv:
            detail = vv.detail
        out.append({"clause": clause, "case": small, "detail": detail})
    stats.violations = out
    return stats


def main(tier):
    run = common.Run(PROP, tier, "exploration", RULE, assumptions=["'currently known' = keys of gateway.sensors at the moment of the request; 'handed out earlier' is tracked by the harness across lifetimes", "stop() is a clean stop; the periodic timer is a harness-fired fake"])
    for path in sorted(glob.glob(os.path.join(common.REPLAY_DIR, f"{PROP}-*.json"))):
        body = json.load(open(path, encoding="utf-8"))
        try:
            check_case(body["case"], run.stats)
        except Violation as v:
            run.stats.violation(v.clause, v.case, f"[regression {os.path.basename(path)}] {v.detail}")
    shards, n = (16, 120) if tier == "quick" else (16, 3000)
    jobs = [(common.shard_seed(common.seed(), i), n) for i in range(shards)]
    for stats in common.pool_map(_shard, jobs):
        run.stats.merge(stats)
    return run.finish()


def replay(path):
    common.setup_path()
    body = json.load(open(path, encoding="utf-8"))
    try:
        check_case(body["case"])
    except Violation as v:
        print(f"VIOLATION property={PROP} replay={path}")
        print(f"  clause={v.clause} detail={v.detail}")
        return 1
    print(f"{PROP} replay {path}: holds")
    return 0
