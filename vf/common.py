"""Shared plumbing: seed/tier handling, evidence writer, VIOLATION / KNOWN-FINDING
protocol, replay files, ddmin, sharded Hypothesis driving.

Nothing in here knows about a particular property.
"""
import hashlib
import json
import os
import sys
import time
import traceback

VERIF = os.path.dirname(os.path.dirname(os.path.abspath(__file__)))
REPO = os.environ.get("VERIF_REPO", "/repo")
EVIDENCE_DIR = os.environ.get("VERIF_EVIDENCE_DIR") or os.path.join(VERIF, "evidence")
REPLAY_DIR = os.path.join(VERIF, "replays")
RUN_REPLAY_DIR = os.environ.get("VERIF_RUN_REPLAY_DIR") or os.path.join(VERIF, "replays", "run")
KNOWN_FILE = os.path.join(VERIF, "known_findings.json")

VERSIONS = ("1.4", "1.5", "2.0", "2.1", "2.2")


class HarnessError(Exception):
    """The harness itself is broken (exit 2) - never reported as a violation."""


def setup_path():
    """Put /repo first on sys.path and make sure mysensors comes from there."""
    if sys.path[0] != REPO:
        sys.path.insert(0, REPO)
    deps = os.path.join(VERIF, ".deps")
    if os.path.isdir(deps) and deps not in sys.path:
        sys.path.append(deps)
    import logging

    logging.disable(logging.CRITICAL)
    import mysensors

    real = os.path.realpath(mysensors.__file__)
    if not real.startswith(os.path.realpath(REPO) + os.sep):
        raise HarnessError(f"mysensors imported from {real}, not from {REPO}")
    return mysensors


def seed():
    try:
        return int(os.environ.get("VERIF_SEED", "1"))
    except ValueError:
        return 1


def shard_seed(base, index):
    """Derive a per-shard seed from the run seed (stable across runs)."""
    digest = hashlib.sha256(f"{base}:{index}".encode()).digest()
    return int.from_bytes(digest[:6], "big")


def canon(obj):
    """Canonical JSON text of a case (for hashing and for replay files)."""
    return json.dumps(obj, sort_keys=True, ensure_ascii=True, default=_default)


def _default(o):
    if isinstance(o, bytes):
        return {"__bytes__": o.hex()}
    if isinstance(o, (set, frozenset)):
        return sorted(o, key=repr)
    if isinstance(o, tuple):
        return list(o)
    return repr(o)


def chash(obj):
    return hashlib.sha1(canon(obj).encode()).hexdigest()[:16]


class Violation(Exception):
    """An oracle clause failed on a concrete case.

    clause: short stable name of the clause (used as failure-bucket key)
    case:   JSON-able description of the input/history that replays it
    detail: human readable explanation
    """

    def __init__(self, clause, case, detail=""):
        super().__init__(f"{clause}: {detail}")
        self.clause = clause
        self.case = case
        self.detail = detail


def load_known():
    if not os.path.exists(KNOWN_FILE):
        return {"known": [], "fixed": []}
    with open(KNOWN_FILE, encoding="utf-8") as fh:
        return json.load(fh)


class Stats:
    """Mergeable counters of one run (or one shard of a run)."""

    def __init__(self):
        self.evaluations = 0
        self.nontrivial = set()
        self.classes = {}
        self.samples = []
        self.violations = []  # list of dict(clause, case, detail)
        self.known_hits = {}  # finding id -> count
        self.notes = []

    def case(self, nontrivial_key=None, sample=None, labels=()):
        self.evaluations += 1
        if nontrivial_key is not None:
            self.nontrivial.add(
                nontrivial_key
                if isinstance(nontrivial_key, str)
                else chash(nontrivial_key)
            )
            if sample is not None and len(self.samples) < 4:
                self.samples.append(sample)
        for lab in labels:
            self.classes[lab] = self.classes.get(lab, 0) + 1

    def label(self, lab, n=1):
        self.classes[lab] = self.classes.get(lab, 0) + n

    def known(self, fid, n=1):
        self.known_hits[fid] = self.known_hits.get(fid, 0) + n

    def violation(self, clause, case, detail=""):
        self.violations.append({"clause": clause, "case": case, "detail": detail})

    def merge(self, other):
        self.evaluations += other.evaluations
        self.nontrivial |= other.nontrivial
        for k, v in other.classes.items():
            self.classes[k] = self.classes.get(k, 0) + v
        for s in other.samples:
            if len(self.samples) < 6:
                self.samples.append(s)
        self.violations.extend(other.violations)
        for k, v in other.known_hits.items():
            self.known_hits[k] = self.known_hits.get(k, 0) + v
        self.notes.extend(other.notes)
        return self


class Run:
    """One invocation of one check: collects Stats, writes evidence + replays."""

    def __init__(self, prop, tier, level, rule, assumptions=(), exhaustive=None):
        self.prop = prop
        self.tier = tier
        self.level = level
        self.rule = rule
        self.assumptions = list(assumptions)
        self.exhaustive = exhaustive
        self.stats = Stats()
        self.t0 = time.time()
        self.extra = {}
        self.known = [k for k in load_known().get("known", []) if k["property"] == prop]

    def finish(self):
        """Write evidence, print protocol lines, return the exit code."""
        st = self.stats
        os.makedirs(EVIDENCE_DIR, exist_ok=True)
        code = 0
        # group violations by clause (root-cause bucket); one replay per bucket
        buckets = {}
        for v in st.violations:
            buckets.setdefault(v["clause"], []).append(v)
        replay_paths = []
        if buckets:
            os.makedirs(RUN_REPLAY_DIR, exist_ok=True)
        for clause, items in sorted(buckets.items()):
            items.sort(key=lambda v: len(canon(v["case"])))
            v = items[0]
            body = {
                "property": self.prop,
                "clause": clause,
                "detail": v["detail"][:2000],
                "case": v["case"],
                "count_in_run": len(items),
            }
            name = f"{self.prop}-{chash([clause, v['case']])}.json"
            path = os.path.join(RUN_REPLAY_DIR, name)
            with open(path, "w", encoding="utf-8") as fh:
                fh.write(json.dumps(body, indent=1, sort_keys=True, default=_default))
            replay_paths.append(path)
            print(f"VIOLATION property={self.prop} replay={path}")
            print(f"  clause={clause} detail={v['detail'][:400]}")
            code = 1
        for k in self.known:
            hits = st.known_hits.get(k["id"], 0)
            print(
                f"KNOWN-FINDING: property={self.prop} {k['id']} {k['what']} "
                f"(re-observed {hits}x in this run)"
            )
        cov = {
            "evaluations": st.evaluations,
            "distinct_nontrivial": len(st.nontrivial),
            "rule": self.rule,
            "samples": st.samples[:5],
            "classes": dict(sorted(st.classes.items())),
            "known_finding_hits": st.known_hits,
        }
        if self.exhaustive is not None:
            cov["exhaustive"] = bool(self.exhaustive)
        cov.update(self.extra)
        ev = {
            "property_id": self.prop,
            "tier": self.tier,
            "seed": seed(),
            "level": self.level,
            "coverage": cov,
            "assumptions": self.assumptions + st.notes[:10],
            "wall_s": round(time.time() - self.t0, 3),
            "violations": len(buckets),
        }
        path = os.path.join(EVIDENCE_DIR, f"{self.prop}.json")
        with open(path, "w", encoding="utf-8") as fh:
            fh.write(json.dumps(ev, indent=1, default=_default))
        print(
            f"{self.prop} tier={self.tier} seed={seed()} evaluations={st.evaluations} "
            f"distinct_nontrivial={len(st.nontrivial)} violations={len(buckets)} "
            f"wall={ev['wall_s']}s"
        )
        return code


def ddmin(items, fails):
    """Classic delta debugging over a list; `fails(sublist)` -> bool."""
    items = list(items)
    n = 2
    while len(items) >= 2:
        chunk = max(1, len(items) // n)
        subsets = [items[i : i + chunk] for i in range(0, len(items), chunk)]
        reduced = False
        for i, sub in enumerate(subsets):
            comp = [x for j, s in enumerate(subsets) if j != i for x in s]
            if comp and fails(comp):
                items = comp
                n = max(n - 1, 2)
                reduced = True
                break
            if len(sub) < len(items) and fails(sub):
                items = sub
                n = 2
                reduced = True
                break
        if not reduced:
            if n >= len(items):
                break
            n = min(len(items), n * 2)
    if len(items) == 1 and fails([]):
        return []
    return items


# ---------------------------------------------------------------------------
# Hypothesis driving


def hyp_settings(max_examples, shrink=True, steps=None):
    from hypothesis import HealthCheck, Phase, settings

    phases = [Phase.explicit, Phase.reuse, Phase.generate, Phase.target]
    if shrink:
        phases.append(Phase.shrink)
    kw = dict(
        max_examples=max_examples,
        deadline=None,
        database=None,
        derandomize=False,
        report_multiple_bugs=False,
        suppress_health_check=list(HealthCheck),
        phases=phases,
        print_blob=False,
    )
    if steps is not None:
        kw["stateful_step_count"] = steps
    return settings(**kw)


def run_given(stats, strategy, body, max_examples, seed_value, shrink=True):
    """Run `body(case)` over `strategy` under Hypothesis with the given seed.

    body raises Violation on an oracle failure. The (shrunk) Violation is added
    to `stats`; any other exception out of body is a harness error.
    """
    import hypothesis
    from hypothesis import given

    @hypothesis.seed(seed_value)
    @hyp_settings(max_examples, shrink=shrink)
    @given(strategy)
    def test(case):
        try:
            body(case)
        except Violation as v:
            if not first:
                first.append(v)
            raise

    first = []
    try:
        test()
    except Violation as v:
        stats.violation(v.clause, v.case, v.detail)
    except hypothesis.errors.FlakyFailure as exc:
        # the oracle failed on a generated case but not when Hypothesis ran the same case again: the harness
        # is deterministic, so the code under test carried state over from earlier cases of this process
        if not first:
            raise HarnessError(f"hypothesis: {type(exc).__name__}: {exc}") from exc
        v = first[0]
        stats.violation(v.clause, v.case, v.detail + " [failed when generated, passed when re-run alone: depends on state that earlier cases left behind in the process]")
    except hypothesis.errors.HypothesisException as exc:
        raise HarnessError(f"hypothesis: {type(exc).__name__}: {exc}") from exc


def pool_map(func, args, procs=None):
    """Map over args in worker processes (fork); results in order."""
    import multiprocessing as mp

    procs = procs or min(16, len(args), os.cpu_count() or 1)
    if procs <= 1 or len(args) <= 1:
        return [func(a) for a in args]
    ctx = mp.get_context("fork")
    with ctx.Pool(procs) as pool:
        return pool.map(func, args, chunksize=1)


def main_wrapper(fn):
    """Run a check's main(); map exceptions to exit code 2."""
    try:
        code = fn()
    except HarnessError as exc:
        print(f"HARNESS-ERROR: {exc}")
        traceback.print_exc()
        code = 2
    except Exception as exc:  # pylint: disable=broad-except
        print(f"HARNESS-ERROR: unexpected {type(exc).__name__}: {exc}")
        traceback.print_exc()
        code = 2
    sys.stdout.flush()
    return code
