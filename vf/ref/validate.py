"""Tri-state reference validator.

validate(version, fields) -> True / False / None

None means: the property statement does not pin the verdict for this input
(exotic numeric spellings, child id outside 0..255 on id request/response,
non-finite numbers inside a position triple, non-plain version strings). No
check may assert either way on None.
"""
import re

from . import tables as T

_CANON_INT = re.compile(r"-?[0-9]+\Z")
_CANON_DEC = re.compile(r"-?[0-9]+(\.[0-9]+)?\Z")
_SPECIAL = re.compile(r"[+-]?(nan|inf|infinity)\Z", re.IGNORECASE)
_PLAIN_VERSION = re.compile(r"[0-9]+(\.[0-9]+){0,2}\Z")


def _maybe_number(text):
    """Could float()/int() conceivably accept this text in some exotic spelling?

    Deliberately broad (errs towards 'maybe'): blanks, signs, underscores, dots,
    exponent letters and decimal digits of any script, or the words nan/inf.
    """
    if not text:
        return False
    low = text.strip().lower()
    if "nan" in low or "inf" in low:
        return True
    has_digit = False
    for ch in text:
        if ch.isdigit() or ch.isdecimal() or ch.isnumeric():
            has_digit = True
            continue
        if ch.isspace() or ch in "+-._eE":
            continue
        return False
    return has_digit


def int_verdict(text, lo=None, hi=None):
    if _CANON_INT.match(text) and len(text) < 4000:
        val = int(text)
        if lo is not None and val < lo:
            return False
        if hi is not None and val > hi:
            return False
        return True
    if _maybe_number(text):
        return None  # "+5", " 5", "5.0", "1e1", "٥", "1_0" ... not pinned
    return False


def float_verdict(text, lo=None, hi=None):
    if _CANON_DEC.match(text) and len(text) < 300:
        val = float(text)
        if lo is not None and val < lo:
            return False
        if hi is not None and val > hi:
            return False
        return True
    if _SPECIAL.match(text):
        # not a number in any closed range
        return False if (lo is not None or hi is not None) else None
    if _maybe_number(text):
        return None
    return False


def version_tuple(text):
    """(major, minor, patch) of a plain numeric version string, else None."""
    if not isinstance(text, str) or not _PLAIN_VERSION.match(text) or len(text) > 60:
        return None
    parts = [int(p) for p in text.split(".")]
    while len(parts) < 3:
        parts.append(0)
    return tuple(parts)


def version_verdict(text):
    if text == "":
        return False
    tup = version_tuple(text)
    if tup is None:
        if not any(ch.isdigit() for ch in text) and not any(ch.isalpha() for ch in text):
            return False  # punctuation / blanks only: plainly not a version
        return None
    return tup >= (1, 4, 0)


def payload_verdict(rule, payload):
    kind = rule[0]
    if kind == "any":
        return True
    if kind == "empty":
        return payload == ""
    if kind == "binary":
        return payload in ("0", "1")
    if kind == "words":
        return payload in rule[1]
    if kind == "hex":
        if len(payload) != rule[1]:
            return False
        return all(ch in "0123456789abcdefABCDEF" for ch in payload)
    if kind == "int_range":
        return int_verdict(payload, rule[1], rule[2])
    if kind == "integer":
        return int_verdict(payload)
    if kind == "empty_or_integer":
        return True if payload == "" else int_verdict(payload)
    if kind == "float_range":
        return float_verdict(payload, rule[1], rule[2])
    if kind == "config":
        if payload in ("M", "I"):
            return True
        return int_verdict(payload, 0, T.MAX_NODE)
    if kind == "version":
        return version_verdict(payload)
    if kind == "position":
        parts = payload.split(",")
        if len(parts) != 3:
            return False
        verdicts = [float_verdict(p) for p in parts]
        if any(v is False for v in verdicts):
            return False
        if any(v is None for v in verdicts):
            return None
        return True
    raise ValueError(rule)


def header_verdict(version, node, child, cmd, ack, sub):
    """True/False/None for everything but the payload."""
    if not 0 <= node <= T.BROADCAST:
        return False
    if ack not in (0, 1):
        return False
    if not T.defined(version, cmd, sub):
        return False
    unpinned = False
    if cmd in (T.INTERNAL, T.STREAM):
        if cmd == T.INTERNAL and sub in (3, 4):
            # id request / response: any child id in range; outside 0..255 unpinned
            if not 0 <= child <= 255:
                unpinned = True
        elif child != T.SYSTEM_CHILD:
            return False
    else:
        if not 0 <= child <= 255:
            return False
        if child == T.SYSTEM_CHILD and cmd != T.PRESENTATION:
            return False
    return None if unpinned else True


def validate(version, fields):
    node, child, cmd, ack, sub, payload = fields
    head = header_verdict(version, node, child, cmd, ack, sub)
    if head is False:
        return False
    pay = payload_verdict(T.payload_rule(version, cmd, sub), payload)
    if pay is False:
        return False
    if head is None or pay is None:
        return None
    return True
