"""C03 - inbound validation conforms to the per-version serial API."""
import itertools
import json

from hypothesis import strategies as st

from vf import common
from vf.common import Violation
from vf.ref import codec
from vf.ref import ota as O
from vf.ref import tables as T
from vf.ref import validate as V

PROP = "C03"
RULE = (
    "Exhaustive product version x command(-1..5) x sub-type(-1..max+2) x node{-1,0,1,254,255,256} "
    "x child{-1,0,1,254,255,256} x ack{-1,0,1,2} x {conforming, violating} payload exemplar, "
    "plus every defined (version, command, sub-type) x boundary payload corpus of its rule, plus "
    "Hypothesis text/numeric payloads per rule, plus exhaustive table laws (monotone growth, every "
    "sub-type has a total rule, every presentation type x value type child schema validates without "
    "internal error), plus Hypothesis streams of sibling lines (same command / sub-type, one coordinate changed) fed to ONE "
    "gateway through logic() with the verdict observed on that inbound path. Oracle: tri-state reference validator (hand-written tables). Non-trivial = "
    "definite verdict AND (exactly one clause violated, or accepted with a coordinate at an extreme of "
    "its range); distinct by (version, header, payload)."
)

NODES = (-1, 0, 1, 254, 255, 256)
CHILDREN = (-1, 0, 1, 254, 255, 256)
ACKS = (-1, 0, 1, 2)

CORPUS = {
    "any": ["", "x", "0", "-1", "ü", "a b", "1,2,3", "x" * 300],
    "empty": ["", "0", "x", " x", "1"],
    "binary": ["0", "1", "2", "", "01", "true", "-1", "10", "1.0", "١"],
    "int_range": None,  # built per rule
    "float_range": None,
    "integer": ["0", "-1", "1", str(2 ** 63), "-" + str(2 ** 70), "1.5", "", "x", "1e3", "+1", " 1", "1_0", "٣", "0x10"],
    "empty_or_integer": ["", "0", "-5", "123456789", "1.5", "x", "+1", "1 2"],
    "version": ["1.3", "1.3.9", "1.4", "1.4.0", "1.4.1", "1.5", "1.10", "2.0", "2.0.0", "2.2.0", "2.3", "3.0", "0.9", "1", "2", "", "abc", "1.4-beta", "2.0b1", "v2.0", "latest", "1..4", "...", "1.4.0.0"],
    "position": ["55.7,13.0,18", "0,0,0", "-1.5,2,3", "1,2", "1,2,3,4", "a,b,c", "1,2,x", ",,", "", "1;2;3", "nan,1,2", "1,inf,2", "1e1,2,3", " 1,2,3"],
    "config": ["M", "I", "m", "i", "MI", "", "0", "1", "254", "255", "-1", "X", "1.0", "+1"],
}


def corpus_for(rule):
    kind = rule[0]
    if kind == "int_range":
        lo, hi = rule[1], rule[2]
        return [str(lo - 1), str(lo), str(lo + 1), str(hi - 1), str(hi), str(hi + 1), "", "a", str(lo) + ".0", "0" + str(hi), "-0", "+%d" % hi, " %d" % lo, "%d_0" % lo if lo else "1_0", "1e1", "٥"]
    if kind == "float_range":
        lo, hi = rule[1], rule[2]
        return [repr(lo - 0.01), repr(lo), str(int(lo)), repr(hi), str(int(hi)), repr(hi + 0.0001), repr((lo + hi) / 2), "nan", "inf", "-inf", "NaN", "Infinity", "", "a", "1e-1", ".5", "0.", " 0.5", "0,5"]
    if kind == "words":
        words = list(rule[1])
        return words + [w.lower() for w in words] + [w.upper() for w in words] + [words[0][:-1], words[0] + " x", "", "0", "1"]
    if kind == "hex":
        n = rule[1]
        return ["a" * n, "A" * n, "0" * n, "f" * (n - 1), "f" * (n + 1), "g" + "0" * (n - 1), "0" * (n - 1) + "ｆ", "", "٠" * n, "0x" + "0" * (n - 2), " " + "0" * (n - 1),
                # right length, blanks between / in front of the byte pairs (hex readers that skip whitespace)
                "ff" + " " * (n - 4) + "aa", " ff" + " " * (n - 5) + "aa", "ff\t" + "a" * (n - 3), "f f" + "0" * (n - 3), "ff" + "\xa0" * (n - 4) + "aa", "+" + "f" * (n - 1), "-" + "f" * (n - 1), "ff_" + "f" * (n - 3)]
    return CORPUS[kind]


# ---------------------------------------------------------------------------


def real_verdict(version, fields):
    """True (accepted) / False (vol.Invalid) ; other exceptions propagate."""
    import voluptuous as vol
    from mysensors.message import Message

    msg = Message(codec.encode(fields))
    try:
        msg.validate(version)
    except vol.Invalid:
        return False
    return True


def clause_failures(version, fields):
    node, child, cmd, ack, sub, payload = fields
    fails = []
    if not 0 <= node <= 255:
        fails.append("node")
    if ack not in (0, 1):
        fails.append("ack")
    if not T.defined(version, cmd, sub):
        fails.append("subtype")
        return fails
    head = V.header_verdict(version, node if 0 <= node <= 255 else 1, child, cmd, 0, sub)
    if head is False:
        fails.append("child")
    if V.payload_verdict(T.payload_rule(version, cmd, sub), payload) is False:
        fails.append("payload")
    return fails


def judge(version, fields, stats, origin):
    ref = V.validate(version, fields)
    case = {"version": version, "fields": list(fields), "origin": origin}
    try:
        got = real_verdict(version, fields)
    except Exception as exc:  # pylint: disable=broad-except
        raise Violation(
            f"validate.raises.{type(exc).__name__}", case,
            f"validate raised {type(exc).__name__}: {exc} (reference verdict {ref})",
        ) from exc
    if ref is None:
        stats.case(None, labels=("unpinned",))
        return
    if got != ref:
        clause = "accepts_invalid" if got else "rejects_valid"
        node, child, cmd, ack, sub, payload = fields
        rule = T.payload_rule(version, cmd, sub)[0] if T.defined(version, cmd, sub) else "-"
        raise Violation(
            f"{clause}.{rule}", case,
            f"version {version} line {codec.encode(fields)!r}: library {'accepts' if got else 'rejects'}, "
            f"reference says {'valid' if ref else 'invalid'} ({clause_failures(version, fields)})",
        )
    fails = clause_failures(version, fields)
    node, child, cmd, ack, sub, payload = fields
    extreme = (
        node in (0, 255) or child in (0, 254, 255)
        or (T.defined(version, cmd, sub) and sub in (0, T.MAX_SUB[version][cmd]))
        or origin != "product"
    )
    nt = len(fails) == 1 or (not fails and extreme)
    stats.case(
        common.chash([version, list(fields)]) if nt else None,
        None if (origin == "product" and (len(fails) != 1 or fails == ["subtype"])) else {"version": version, "line": codec.encode(fields), "verdict": ref, "violated": fails},
        labels=("accepted" if ref else "rejected", origin),
    )


def product_cells(version):
    cells = []
    for cmd in range(-1, 6):
        top = T.MAX_SUB[version][cmd] + 2 if cmd in T.COMMANDS else 2
        for sub in range(-1, top + 1):
            cells.append((cmd, sub))
    return cells


def _product_worker(args):
    version, cells = args
    common.setup_path()
    stats = common.Stats()
    for cmd, sub in cells:
        if T.defined(version, cmd, sub):
            good, bad = T.exemplars(T.payload_rule(version, cmd, sub))
        else:
            good, bad = "", "x"
        payloads = [good] + ([bad] if bad is not None else [])
        for node, child, ack, payload in itertools.product(NODES, CHILDREN, ACKS, payloads):
            try:
                judge(version, (node, child, cmd, ack, sub, payload), stats, "product")
            except Violation as v:
                stats.violation(v.clause, v.case, v.detail)
    return stats


def _corpus_worker(version):
    common.setup_path()
    stats = common.Stats()
    for cmd in T.COMMANDS:
        for sub in range(0, T.MAX_SUB[version][cmd] + 1):
            rule = T.payload_rule(version, cmd, sub)
            child = 255 if cmd in (T.INTERNAL, T.STREAM) else 1
            if cmd == T.PRESENTATION and rule[0] == "version":
                child = 255
            for payload in corpus_for(rule):
                if not codec.carriable(payload):
                    continue
                try:
                    judge(version, (1, child, cmd, 0, sub, payload), stats, "corpus-" + rule[0])
                except Violation as v:
                    stats.violation(v.clause, v.case, v.detail)
    return stats


# --- Hypothesis payloads ----------------------------------------------------

_text = st.text(st.characters(exclude_categories=["Cs"], exclude_characters=";\n\r"), max_size=12).filter(codec.carriable)
_numtext = st.one_of(
    st.integers(-300, 300).map(str),
    st.integers().map(str),
    st.floats(allow_nan=False, allow_infinity=False, min_value=-200, max_value=200).map(lambda f: f"{f:.4f}".rstrip("0").rstrip(".") if "e" not in repr(f) else "0"),
    st.from_regex(r"-?[0-9]{1,3}(\.[0-9]{1,3})?", fullmatch=True),
    st.from_regex(r"[0-9a-fA-F]{5,9}", fullmatch=True),
    st.from_regex(r"[0-9a-f \t]{6}", fullmatch=True).filter(codec.carriable),
    st.from_regex(r"[0-9a-f \t]{8}", fullmatch=True).filter(codec.carriable),
    st.from_regex(r"-?[0-9]{1,2}(\.[0-9]{1,2})?,-?[0-9]{1,3},[0-9]{1,3}", fullmatch=True),
    st.from_regex(r"[0-3]\.[0-9]{1,2}(\.[0-9])?", fullmatch=True),
)


@st.composite
def hyp_cases(draw):
    version = draw(st.sampled_from(T.VERSIONS))
    cmd = draw(st.sampled_from(T.COMMANDS))
    sub = draw(st.integers(0, T.MAX_SUB[version][cmd]))
    if draw(st.integers(0, 3)) == 0:  # bias to constrained rules
        constrained = [s for s in range(T.MAX_SUB[version][cmd] + 1) if T.payload_rule(version, cmd, s)[0] != "any"]
        if constrained:
            sub = draw(st.sampled_from(constrained))
    child = 255 if cmd in (T.INTERNAL, T.STREAM) else draw(st.integers(0, 254))
    if cmd == T.PRESENTATION and draw(st.booleans()):
        child = 255
    node = draw(st.integers(0, 255))
    payload = draw(st.one_of(_text, _numtext))
    return {"version": version, "fields": [node, child, cmd, draw(st.integers(0, 1)), sub, payload]}


def _hyp_worker(args):
    seed_value, n = args
    common.setup_path()
    stats = common.Stats()

    def body(case):
        judge(case["version"], tuple(case["fields"]), stats, "hypothesis")

    common.run_given(stats, hyp_cases(), body, n, seed_value)
    return stats


# --- the inbound path: one gateway, many lines ---------------------------------
# The verdict must be a function of the line and the version alone: a gateway that has already judged other
# lines (same command / sub-type on another child, node, ack or payload class) judges the next one the same way.


@st.composite
def stream_cases(draw):
    version = draw(st.sampled_from(T.VERSIONS))
    lines = []
    for _ in range(draw(st.integers(2, 5))):
        cmd = draw(st.sampled_from(T.COMMANDS))
        sub = draw(st.integers(0, T.MAX_SUB[version][cmd]))
        good, bad = T.exemplars(T.payload_rule(version, cmd, sub))
        payloads = [good] + ([bad] if bad is not None else [])
        if cmd == T.STREAM and sub in (0, 2):
            # a well-formed firmware config / block request for the firmware of the prelude
            payloads = payloads + [O.words_hex(1, 1, 8, 0xABCD, 0x0102) if sub == 0 else O.words_hex(1, 1, draw(st.integers(0, 3)))]
        base = (draw(st.sampled_from([1, 2, 254])), draw(st.sampled_from([0, 1, 255])), cmd, 0, sub, draw(st.sampled_from(payloads)))
        group = [base]
        for _ in range(draw(st.integers(1, 3))):
            sib = list(draw(st.sampled_from(group)))
            which = draw(st.sampled_from(["child", "child", "node", "ack", "payload", "sub"]))
            if which == "child":
                sib[1] = draw(st.sampled_from([0, 1, 254, 255, 256]))
            elif which == "node":
                sib[0] = draw(st.sampled_from([0, 1, 255, 256]))
            elif which == "ack":
                sib[3] = draw(st.sampled_from([0, 1, 2]))
            elif which == "payload":
                sib[5] = draw(st.sampled_from(payloads))
            else:
                sib[4] = draw(st.integers(0, T.MAX_SUB[version][cmd] + 1))
            group.append(tuple(sib))
        lines.extend(draw(st.permutations(group)))
    # the state the gateway is in when it judges the lines: fresh, or with node 1 known / asleep / in the middle
    # of a firmware update (the verdict must not depend on it)
    return {"version": version, "lines": [list(f) for f in lines], "prelude": draw(st.sampled_from(["fresh", "known", "ota", "ota", "sleeping"]))}


def judge_stream(case, stats):
    import voluptuous as vol
    from mysensors.message import Message

    from vf import drive

    version = case["version"]
    seen = []
    original = Message.validate

    def spy(self, *args, **kwargs):
        try:
            result = original(self, *args, **kwargs)
        except vol.Invalid:
            seen.append(((self.node_id, self.child_id, self.type, self.ack, self.sub_type, self.payload), False))
            raise
        seen.append(((self.node_id, self.child_id, self.type, self.ack, self.sub_type, self.payload), True))
        return result

    Message.validate = spy
    try:
        driver = drive.Driver(version, "sync")
        prelude = case.get("prelude", "fresh")
        if prelude != "fresh":
            for text in ("1;255;0;0;17;2.0", "1;0;0;0;6;t", "1;1;0;0;3;l", "2;255;0;0;17;2.0"):
                driver.line(text)
        if prelude == "ota":
            driver.update_fw([1], 1, 1, image=bytes(range(40)))
            driver.line("1;255;4;0;0;" + O.words_hex(9, 9, 1, 0xABCD, 0x0102))
            driver.line("1;255;4;0;2;" + O.words_hex(1, 1, 0))
        if prelude == "sleeping" and T.wake_sub(version) is not None:
            driver.line(f"1;255;3;0;{T.wake_sub(version)};5")
        mixed = set()
        for index, fields in enumerate(case["lines"]):
            fields = tuple(fields)
            ref = V.validate(version, fields)
            del seen[:]
            before = driver.snapshot() if ref is False else None
            step = driver.line(codec.encode(fields))
            if step.exc is not None:
                if ref is False:
                    raise Violation(f"inbound.raises.{type(step.exc).__name__}", case, f"line {index} {codec.encode(fields)!r} (invalid) made the pump raise {step.exc!r}")
                return  # crashes on accepted lines are C01's business
            mine = [ok for f, ok in seen if f == fields]
            if ref is False and not mine and (step.sent or step.callbacks or driver.snapshot() != before):
                # no verdict was observed because the line was never validated - yet it was acted upon
                raise Violation(
                    "inbound.accepts_invalid.unvalidated", case,
                    f"version {version} [{prelude}]: line {index} {codec.encode(fields)!r} is invalid ({clause_failures(version, fields)}) but the gateway acted on it without validating it: sent={step.sent} callbacks={len(step.callbacks)}",
                )
            if ref is None or not mine:
                continue
            mixed.add(ref)
            if mine[0] != ref:
                clause = "accepts_invalid" if mine[0] else "rejects_valid"
                raise Violation(
                    f"inbound.{clause}", case,
                    f"version {version}: line {index} {codec.encode(fields)!r} was {'accepted' if mine[0] else 'rejected'} on the gateway's inbound path after "
                    f"{[codec.encode(tuple(f)) for f in case['lines'][:index]]}; reference says {'valid' if ref else 'invalid'} ({clause_failures(version, fields)})",
                )
    finally:
        Message.validate = original
    nt = mixed == {True, False}
    stats.case(common.chash([version, case["lines"]]) if nt else None, {"version": version, "lines": [codec.encode(tuple(f)) for f in case["lines"]][:8]} if nt else None, labels=("inbound-path",))


def _stream_worker(args):
    seed_value, n = args
    common.setup_path()
    stats = common.Stats()
    common.run_given(stats, stream_cases(), lambda c: judge_stream(c, stats), n, seed_value)
    return stats


# --- table laws ---------------------------------------------------------------


def _defined_sets(version):
    from mysensors.const import get_const

    const = get_const(version)
    return {int(cmd): {int(m) for m in members} for cmd, members in const.VALID_MESSAGE_TYPES.items()}


def _laws_worker(version):
    common.setup_path()
    stats = common.Stats()
    table_laws(stats, [version])
    return stats


def table_laws(stats, versions=T.VERSIONS):
    import voluptuous as vol
    from mysensors.const import get_const
    from mysensors.sensor import ChildSensor

    for other in T.VERSIONS:
        get_const(other)  # a process normally ends up with several versions loaded (nodes present their own)
    for version in versions:
        const = get_const(version)
        defined_now = _defined_sets(version)
        idx = T.VERSIONS.index(version)
        prev = _defined_sets(T.VERSIONS[idx - 1]) if idx else None
        # the code's own tables agree with the hand-written ranges
        for cmd in T.COMMANDS:
            want = set(range(T.MAX_SUB[version][cmd] + 1))
            stats.case(f"law-defined-{version}-{cmd}", {"law": "defined set", "version": version, "command": cmd, "size": len(want)}, labels=("law",))
            if defined_now.get(cmd) != want:
                stats.violation("law.defined_set", {"version": version, "command": cmd}, f"defined sub-types {sorted(defined_now.get(cmd, []))} != 0..{T.MAX_SUB[version][cmd]}")
        if prev is not None:
            for cmd in T.COMMANDS:
                stats.case(f"law-monotone-{version}-{cmd}", None, labels=("law",))
                if not prev[cmd] <= defined_now[cmd]:
                    stats.violation("law.monotone", {"version": version, "command": cmd}, f"sub-types {sorted(prev[cmd] - defined_now[cmd])} disappeared in {version}")
        # every defined sub-type has an explicit payload rule (not the "" default)
        for cmd_member, members in const.VALID_MESSAGE_TYPES.items():
            table = const.VALID_PAYLOADS.get(cmd_member, {})
            for m in members:
                stats.case(f"law-rule-{version}-{int(cmd_member)}-{int(m)}", None, labels=("law",))
                if m not in table and int(m) not in table:
                    stats.violation("law.missing_rule", {"version": version, "command": int(cmd_member), "sub": int(m)}, "defined sub-type has no payload rule")
        # child schemas: every presentation type x every value type
        for pres in const.Presentation:
            for typ in (pres, int(pres)):
                child = ChildSensor(0, typ)
                try:
                    schema = child.get_schema(version)
                except Exception as exc:  # pylint: disable=broad-except
                    stats.case(f"law-child-{version}-{int(pres)}-{type(typ).__name__}", None, labels=("law-child",))
                    stats.violation(
                        f"law.child_schema.{type(exc).__name__}",
                        {"version": version, "presentation": int(pres), "typed": type(typ).__name__},
                        f"ChildSensor(0,{typ!r}).get_schema({version}) raised {type(exc).__name__}: {exc}",
                    )
                    continue
                for vt in range(T.MAX_SUB[version][T.SET] + 1):
                    good, bad = T.exemplars(T.payload_rule(version, T.SET, vt))
                    for values in ({}, {vt: good}, {vt: bad if bad is not None else ""}):
                        stats.case(f"law-child-{version}-{int(pres)}-{type(typ).__name__}-{vt}-{list(values.values())}", {"law": "child schema", "version": version, "presentation": int(pres), "values": values}, labels=("law-child",))
                        try:
                            schema(values)
                        except vol.Invalid:
                            pass
                        except Exception as exc:  # pylint: disable=broad-except
                            stats.violation(
                                f"law.child_schema.{type(exc).__name__}",
                                {"version": version, "presentation": int(pres), "values": {str(k): v for k, v in values.items()}},
                                f"ChildSensor(0,{typ!r}).validate({version},{values}) raised {type(exc).__name__}: {exc}",
                            )
            # the public entry point once per type as well
            try:
                ChildSensor(0, pres).validate(version, {})
            except vol.Invalid:
                pass
            except Exception as exc:  # pylint: disable=broad-except
                stats.violation(f"law.child_schema.{type(exc).__name__}", {"version": version, "presentation": int(pres)}, f"validate raised {exc!r}")


def regression(run):
    import glob
    import os

    for path in sorted(glob.glob(os.path.join(common.REPLAY_DIR, f"{PROP}-*.json"))):
        body = json.load(open(path, encoding="utf-8"))
        case = body["case"]
        try:
            if "lines" in case:
                judge_stream(case, run.stats)
                continue
            judge(case["version"], tuple(case["fields"]), run.stats, "regression")
        except Violation as v:
            run.stats.violation(v.clause, v.case, f"[regression {path}] {v.detail}")


def main(tier):
    run = common.Run(
        PROP, tier, "exploration", RULE, exhaustive=True,
        assumptions=[
            "hand-written tables vf/ref/tables.py + tri-state validator vf/ref/validate.py are the oracle",
            "exhaustive refers to the finite header product and the table laws; payload text is generated",
            "inputs with an unpinned verdict (exotic numeric spellings, child outside 0..255 on id request/response, non-plain version strings) are executed (must not raise anything but vol.Invalid) but not compared",
        ],
    )
    regression(run)
    jobs = []
    for version in T.VERSIONS:
        cells = product_cells(version)
        for i in range(6):
            jobs.append((version, cells[i::6]))
    for stats in common.pool_map(_product_worker, jobs):
        run.stats.merge(stats)
    for stats in common.pool_map(_corpus_worker, list(T.VERSIONS)):
        run.stats.merge(stats)
    for stats in common.pool_map(_laws_worker, list(T.VERSIONS)):
        run.stats.merge(stats)
    n = 1500 if tier == "quick" else 30000
    shards = [(common.shard_seed(common.seed(), i), n) for i in range(8 if tier == "quick" else 16)]
    for stats in common.pool_map(_hyp_worker, shards):
        run.stats.merge(stats)
    n = 250 if tier == "quick" else 6000
    shards = [(common.shard_seed(common.seed(), 100 + i), n) for i in range(8 if tier == "quick" else 16)]
    for stats in common.pool_map(_stream_worker, shards):
        run.stats.merge(stats)
    return run.finish()


def replay(path):
    common.setup_path()
    body = json.load(open(path, encoding="utf-8"))
    stats = common.Stats()
    try:
        case = body["case"]
        if "lines" in case:
            judge_stream(case, stats)
        elif "fields" not in case:
            table_laws(stats)
            if any(v["clause"] == body["clause"] for v in stats.violations):
                raise Violation(body["clause"], case, "table law still violated")
        else:
            judge(case["version"], tuple(case["fields"]), stats, "replay")
    except Violation as v:
        print(f"VIOLATION property={PROP} replay={path}")
        print(f"  clause={v.clause} detail={v.detail}")
        return 1
    print(f"{PROP} replay {path}: holds")
    return 0
