"""C10 - OTA sessions are gated, restartable and terminate."""
from vf.histcheck import HistoryCheck

RULE = (
    "Hypothesis-generated histories over 5 versions x {sync, async}: a small network by construction, then "
    "update calls (single id, lists, unknown ids, with/without image, firmware that was never stored), firmware "
    "config and block requests (well-formed, upper-case, truncated, over-long, non-hex, non-ASCII; scheduled / "
    "other existing / non-existent firmware; block index below and beyond the end), set messages, node "
    "presentations and other traffic, checked per step against a per-node reference session automaton "
    "(idle/requested/offered/fetching, kept as a SET of possible states where the statement leaves a choice) "
    "and the reboot rule. Non-trivial = some node visited offered AND fetching, or a malformed firmware request "
    "arrived while a session was not idle, with >= 2 nodes known; distinct by hash of the history."
)


def nontrivial(case, sess):
    labels = sess.labels
    deep = any(l.startswith("ota-") and "fetching" in l for l in labels) and any(
        l.startswith("ota-") and "offered" in l for l in labels
    )
    malformed_live = "ota-malformed-live" in labels
    return (deep or malformed_live) and len(sess.model.nodes) >= 2 and "aborted" not in labels


KINDS = ["node", "child", "set", "set", "set", "cfgreq", "cfgreq", "cfgreq", "blkreq", "blkreq", "blkreq", "blkreq", "stream_misc", "req", "wake", "battery"]

CHECK = HistoryCheck(
    "C10", {"ota", "reboot"}, RULE,
    dict(max_ops=40, min_ops=8, frame_kinds=KINDS, op_weights=dict(fw=14, set=4, near=4, raw=2, cb_raise=1, clock=0, metric=0)),
    nontrivial, quick=(16, 160), thorough=(16, 1500),
    assumptions=[
        "reference automaton in vf/ref/model.py; firmware arithmetic in vf/ref/ota.py (own CRC-16/MODBUS, checked against 0x4B37)",
        "a well-formed block request for firmware that does not exist may or may not count as 'started fetching' (both accepted)",
        "images <= 200 bytes here (C09 covers lengths up to 32768)",
    ],
)
main = CHECK.main
replay = CHECK.replay
