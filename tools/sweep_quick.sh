#!/bin/sh
# usage: tools/sweep_quick.sh "0 1 2" [checks...]   - quick tier on /repo at several seeds, outputs kept out of evidence/
cd "$(dirname "$0")/.." 2>/dev/null
seeds=${1:-"0 1 2 3 12345"}; shift
checks=${@:-"C01 C02 C03 C04 C05 C06 C07 C08 C09 C10 C11 C12 C13 C14 C15 C16 C17 C18 C19 C20"}
out=$(mktemp -d /tmp/vf_sweep.XXXXXX)
bad=0
for s in $seeds; do for c in $checks; do
  VERIF_SEED=$s VERIF_EVIDENCE_DIR=$out/ev VERIF_RUN_REPLAY_DIR=$out/rp ./check $c --tier quick > $out/$c.$s.log 2>&1
  rc=$?
  if [ $rc -ne 0 ] || grep -q "^VIOLATION" $out/$c.$s.log; then bad=$((bad+1)); echo "$c seed=$s rc=$rc"; grep -h "VIOLATION\|clause=\|HARNESS" $out/$c.$s.log | cut -c1-400 | head -6; fi
done; done
echo "sweep done: $bad bad"
rm -rf $out
