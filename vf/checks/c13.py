"""C13 - start-up survives damaged persistence files."""
import glob
import json
import logging
import os

from hypothesis import strategies as st

from vf import common, drive, gen, persist
from vf.common import Violation
from vf.checks.c11 import apply_ops, first_diff

PROP = "C13"
RULE = (
    "Valid persistence files are produced from Hypothesis-generated states (both formats; main state S_main and "
    "backup state S_b with DISJOINT node ids so that a merge is visible). Then enumerated exhaustively per file: "
    "main in {missing, every truncation length 0..len-1, zero-filled to the same length} x backup in {absent, "
    "intact, truncated at 0 / 1 / len/2 / len-1, zero-filled}, the file being named absolutely, by bare name, as ./name or below a "
    "sub-directory of the working directory (rotating), a third of the loads with the library's logging switched to DEBUG and a formatting handler. Oracle: start_persistence() (and "
    "safe_load_sensors()) return without raising; the loaded projection is S_b if the backup is intact, else "
    "empty - never a mixture; a following save + fresh load works. Controls: intact main => S_main. "
    "Non-trivial = truncation strictly inside the file, or zero-fill, with a backup present; distinct by "
    "(format, state hash, offset, backup class)."
)


@st.composite
def cases(draw):
    """Two small states with disjoint node ids (as line lists)."""

    def state(pool):
        lines = []
        for nid in draw(st.lists(st.sampled_from(pool), min_size=1, max_size=2, unique=True)):
            lines.append(f"{nid};255;0;0;17;{draw(st.sampled_from(['1.4', '2.0', '2.2.0']))}")
            for cid in draw(st.lists(st.integers(0, 3), max_size=2, unique=True)):
                lines.append(f"{nid};{cid};0;0;{draw(st.integers(0, 25))};{draw(gen.nice_text)}")
                for vt in draw(st.lists(st.sampled_from([0, 1, 24, 25]), max_size=2, unique=True)):
                    lines.append(f"{nid};{cid};1;0;{vt};{draw(gen.nice_text)}")
            lines.append(f"{nid};255;3;0;12;v{draw(st.sampled_from(['é', '雪', '😀', 'ß–°']))}{draw(st.integers(0, 9))}")  # always some multi-byte text
            if draw(st.booleans()):
                lines.append(f"{nid};255;3;0;11;{draw(gen.nice_text)}")
            if draw(st.booleans()):
                lines.append(f"{nid};255;3;0;0;{draw(st.integers(0, 100))}")
        return lines

    return {
        "version": draw(st.sampled_from(common.VERSIONS)),
        "ext": draw(st.sampled_from(["json", "pickle"])),
        "main": state([1, 2, 3, 4]),
        "bak": state([11, 12, 13, 14]),
    }


def make_file(fake, version, path, lines):
    life = persist.Lifetime(fake, version, path)
    apply_ops(life.driver, [{"op": "line", "text": t} for t in lines])
    proj = drive.typed(life.projection())
    life.stop()
    with open(path, "rb") as fh:
        data = fh.read()
    os.remove(path)
    return data, proj


def damage_variants(data, sampled):
    n = len(data)
    if sampled:
        offsets = sorted({0, 1, n // 2, n - 1} & set(range(n)))
    else:
        offsets = range(n)
    for off in offsets:
        yield f"trunc@{off}", data[:off]
    yield "zerofill", bytes(n)


SHAPES = ("abs", "bare", "dot", "sub", "bakdir", "dotdir")


class _Formatting(logging.Handler):
    """What an application's log handler does with every record: format it."""

    def emit(self, record):
        record.getMessage()


def one_load(version, tmp, ext, main_bytes, bak_bytes, expect, stats, case, label, api, shape="abs", verbose=False):
    """`shape`: how the application names the file - absolute, bare name / ./name relative to the working
    directory, or below a sub-directory of the working directory.
    `verbose`: the application has switched the library's logging to DEBUG (as the shipped example does)."""
    cwd = os.getcwd()
    logger = logging.getLogger("mysensors")
    level, handler = logger.level, _Formatting()
    try:
        if verbose:
            logger.setLevel(logging.DEBUG)
            logger.addHandler(handler)
            logging.disable(logging.NOTSET)  # the harness keeps the library quiet otherwise (vf.common.setup_path)
        if shape in ("bare", "dot"):
            os.chdir(tmp)
            given = f"net.{ext}" if shape == "bare" else f"./net.{ext}"
        elif shape == "sub":
            os.chdir(os.path.dirname(tmp))
            given = f"{os.path.basename(tmp)}/net.{ext}"
        elif shape in ("bakdir", "dotdir"):
            # the file lives in a directory whose own name contains '.bak' / a dot (a copied configuration
            # directory, conf.d, ~/.config ...); a sibling without that part exists as well
            sub = os.path.join(tmp, "gateway.bak" if shape == "bakdir" else "conf.d")
            given = os.path.join(sub, f"net.{ext}")
        else:
            given = os.path.join(tmp, f"net.{ext}")
        return _one_load(version, tmp, ext, main_bytes, bak_bytes, expect, stats, case, f"{label}, path {shape}{' with DEBUG logging' if verbose else ''}", api, given)
    finally:
        os.chdir(cwd)
        if verbose:
            logging.disable(logging.CRITICAL)
        logger.setLevel(level)
        logger.removeHandler(handler)


def _one_load(version, tmp, ext, main_bytes, bak_bytes, expect, stats, case, label, api, given):
    path = os.path.join(tmp, f"net.{ext}")
    persist.restore(tmp, {})
    if os.path.isabs(given) and os.path.dirname(given) != tmp:
        path = given
        os.makedirs(os.path.dirname(path))
        os.makedirs(os.path.join(tmp, "gateway"), exist_ok=True)
    if main_bytes is not None:
        with open(path, "wb") as fh:
            fh.write(main_bytes)
    if bak_bytes is not None:
        with open(path + ".bak", "wb") as fh:
            fh.write(bak_bytes)
    where = f"[{ext}, {label}, via {api}]"
    with persist.TimerPatch() as fake:
        drv = drive.Driver(version, "async" if api == "async_start_persistence" else "sync", persistence=True, persistence_file=given)
        try:
            if api == "async_start_persistence":
                # the asyncio gateways load through their own start_persistence coroutine
                import asyncio

                async def start_and_cancel():
                    await drv.gw.start_persistence()
                    for task in asyncio.all_tasks():
                        if task is not asyncio.current_task():
                            task.cancel()

                asyncio.run(start_and_cancel())
            elif api == "start_persistence":
                drv.gw.start_persistence()
            else:
                drv.gw.tasks.persistence.safe_load_sensors()
        except Exception as exc:  # pylint: disable=broad-except
            raise Violation(
                f"startup_raises.{ext}.{type(exc).__name__}", dict(case, damage=label.rsplit(", path ", 1)[0], api=api),
                f"{where}: start-up raised {type(exc).__name__}: {str(exc)[:200]}",
            ) from exc
        got = drive.typed(drive.projection(drv.gw))
        if got != expect:
            raise Violation(
                f"wrong_state_loaded.{ext}", dict(case, damage=label.rsplit(", path ", 1)[0], api=api),
                f"{where}: loaded state is neither the intact file's nor empty: {first_diff(expect, got)}",
            )
        # a following save + load works
        step = drv.line("9;255;0;0;17;2.0")
        drv.gw.tasks.persistence.need_save = True
        try:
            drv.gw.tasks.persistence.save_sensors()
        except Exception as exc:  # pylint: disable=broad-except
            raise Violation(f"save_after_damage_raises.{ext}", dict(case, damage=label.rsplit(", path ", 1)[0], api=api), f"{where}: save after damaged start raised {exc!r}") from exc
        want = drive.typed(drive.projection(drv.gw))
        again = persist.fresh_load(version, path)
        if drive.typed(drive.projection(again.gw)) != want or step.exc is not None:
            raise Violation(f"save_after_damage_lost.{ext}", dict(case, damage=label.rsplit(", path ", 1)[0], api=api), f"{where}: state saved after a damaged start does not load back")
        del fake


def interrupted_save_control(version, tmp, ext, main_data, s_main, case, stats):
    """The damaged configuration is produced by the library itself: a save through a symbolically linked
    persistence file is cut before each of its renames / removes; start-up must then find the backup the save
    wrote (or the new file) - never an empty network."""
    from vf import faultfs

    layout = {os.path.join("store", f"net.{ext}"): main_data, f"net.{ext}": ("link", os.path.join("store", f"net.{ext}"))}
    path = os.path.join(tmp, f"net.{ext}")

    def saver():
        persist.restore(tmp, layout)
        with persist.TimerPatch():
            drv = drive.Driver(version, "sync", persistence=True, persistence_file=path)
            drv.gw.tasks.persistence.safe_load_sensors()
        drv.line("9;255;0;0;17;2.0")
        drv.gw.tasks.persistence.need_save = True
        return drv

    drv = saver()
    s_new = drive.typed(drive.projection(drv.gw))
    with faultfs.Layer() as probe:
        drv.gw.tasks.persistence.save_sensors()
    cuts = [k for k, (kind, _name, _extra) in enumerate(probe.trace) if kind in ("rename", "remove")]
    for k in cuts:
        drv = saver()
        with faultfs.Layer(faultfs.FaultPlan(k, "crash_before")):
            try:
                drv.gw.tasks.persistence.save_sensors()
            except faultfs.Crash:
                pass
        label = f"symlinked file, the library's own save cut before op {k} ({probe.trace[k][0]} {probe.trace[k][1]})"
        with persist.TimerPatch():
            fresh = drive.Driver(version, "sync", persistence=True, persistence_file=path)
            try:
                fresh.gw.start_persistence()
            except Exception as exc:  # pylint: disable=broad-except
                raise Violation(f"startup_raises.{ext}.{type(exc).__name__}", dict(case, damage=label), f"[{ext}, {label}]: start-up raised {type(exc).__name__}: {exc}") from exc
        got = drive.typed(drive.projection(fresh.gw))
        if got not in (s_main, s_new):
            raise Violation(f"wrong_state_loaded.{ext}", dict(case, damage=label), f"[{ext}, {label}]: start-up found neither the backed-up nor the new state: {first_diff(s_main, got)} (files: {sorted(persist.listing(tmp))})")
        if stats is not None:
            stats.evaluations += 1
    persist.restore(tmp, {})


def check_case(case, stats=None, only=None, part=(0, 1), collect=None):
    """Enumerate the damage matrix of one generated file pair.

    part=(j, k): this call handles main-damage variants j, j+k, j+2k, ... (sharding).
    collect: list that receives Violations instead of raising (keeps enumerating)."""
    version, ext = case["version"], case["ext"]

    def guarded(*args):
        try:
            one_load(*args)
        except Violation as v:
            if collect is None:
                raise
            if len(collect) < 25:
                collect.append(v)

    with persist.Scratch() as tmp:
        path = os.path.join(tmp, f"net.{ext}")
        try:
            with persist.TimerPatch() as fake:
                main_data, s_main = make_file(fake, version, path, case["main"])
                bak_data, s_bak = make_file(fake, version, path, case["bak"])
                none_data, _ = make_file(fake, version, path, [])  # a complete save of an empty network
        except Exception as exc:  # pylint: disable=broad-except
            v = Violation(f"clean_save_raises.{type(exc).__name__}", case, f"fault-free start/save/stop cycle used to prepare the files raised {type(exc).__name__}: {exc}")
            if collect is None:
                raise v from exc
            collect.append(v)
            return
        empty = drive.typed({})
        state_key = common.chash([case["main"], case["bak"], ext])
        if only is not None and only.startswith("symlinked file"):
            interrupted_save_control(version, tmp, ext, main_data, s_main, case, stats)
            return
        if part[0] == 0 and only is None:  # controls
            guarded(version, tmp, ext, main_data, None, s_main, stats, case, "main intact, no backup", "start_persistence")
            guarded(version, tmp, ext, main_data, bak_data, s_main, stats, case, "main intact, backup intact", "safe_load_sensors")
            guarded(version, tmp, ext, None, bak_data, s_bak, stats, case, "main missing, backup intact", "start_persistence")
            guarded(version, tmp, ext, None, None, empty, stats, case, "both missing", "start_persistence")
            guarded(version, tmp, ext, none_data, bak_data, empty, stats, case, "main intact (empty network), backup intact", "start_persistence")
            guarded(version, tmp, ext, None, bak_data, s_bak, stats, case, "main missing, backup intact", "async_start_persistence", "bare")
            guarded(version, tmp, ext, main_data[: len(main_data) // 2], bak_data, s_bak, stats, case, "main trunc@half, backup intact", "async_start_persistence")
            guarded(version, tmp, ext, main_data, bak_data, s_main, stats, case, "main intact, backup intact", "async_start_persistence")
            try:
                interrupted_save_control(version, tmp, ext, main_data, s_main, case, stats)
            except Violation as v:
                if collect is None:
                    raise
                collect.append(v)
            if stats is not None:
                stats.evaluations += 8
        backups = [("absent", None), ("intact", bak_data)] + [("bak-" + lab, d) for lab, d in damage_variants(bak_data, sampled=True)]
        mains = [("missing", None)] + list(damage_variants(main_data, sampled=False))
        count = 0
        for idx, (mlab, mdata) in enumerate(mains):
            if idx % part[1] != part[0]:
                continue
            for bi, (blab, bdata) in enumerate(backups):
                label = f"main {mlab}, backup {blab}"
                if only is not None and label != only:
                    continue
                expect = s_bak if blab == "intact" else empty
                api = "start_persistence" if count % 5 == 0 else ("async_start_persistence" if count % 7 == 3 else "safe_load_sensors")
                count += 1
                guarded(version, tmp, ext, mdata, bdata, expect, stats, case, label, api, SHAPES[(idx + bi) % len(SHAPES)], (idx + 2 * bi) % 3 == 0)
                if stats is not None:
                    inside = mlab == "zerofill" or (mlab.startswith("trunc@") and 0 < int(mlab[6:]) < len(main_data))
                    nt = inside and blab != "absent"
                    stats.case(
                        f"{state_key}:{mlab}:{blab}" if nt else None,
                        {"version": version, "ext": ext, "damage": label, "main_len": len(main_data)} if count % 97 == 0 else None,
                        labels=(ext, "backup-" + ("damaged" if blab.startswith("bak-") else blab)),
                    )


PARTS = 8


def _one(args):
    case, j = args
    common.setup_path()
    stats = common.Stats()
    found = []
    check_case(case, stats, part=(j, PARTS), collect=found)
    for v in found:
        stats.violation(v.clause, v.case, v.detail)
    return stats


def draw_cases(n, seed_value):
    """Draw n cases deterministically from the strategy (Hypothesis-generated states)."""
    out = []
    stats = common.Stats()
    common.run_given(stats, cases(), out.append, n, seed_value, shrink=False)
    # one of each format at least
    exts = {c["ext"] for c in out}
    for ext in ("json", "pickle"):
        if ext not in exts and out:
            out.append(dict(out[0], ext=ext))
    return out


def main(tier):
    run = common.Run(PROP, tier, "fault_enumeration", RULE, exhaustive=True,
                     assumptions=["exhaustive = every truncation offset and zero-fill of each generated file; the states themselves are generated", "damage to the backup is sampled at offsets 0, 1, len/2, len-1 and zero-fill"])
    for path in sorted(glob.glob(os.path.join(common.REPLAY_DIR, f"{PROP}-*.json"))):
        body = json.load(open(path, encoding="utf-8"))
        try:
            c = body["case"]
            check_case(c, run.stats, only=c.get("damage"))
        except Violation as v:
            run.stats.violation(v.clause, v.case, f"[regression {os.path.basename(path)}] {v.detail}")
    n = 4 if tier == "quick" else 48
    todo = draw_cases(n, common.shard_seed(common.seed(), 0))
    for stats in common.pool_map(_one, [(c, j) for c in todo for j in range(PARTS)]):
        run.stats.merge(stats)
    run.extra["files"] = len(todo)
    return run.finish()


def replay(path):
    common.setup_path()
    body = json.load(open(path, encoding="utf-8"))
    try:
        c = body["case"]
        check_case(c, only=c.get("damage"))
    except Violation as v:
        print(f"VIOLATION property={PROP} replay={path}")
        print(f"  clause={v.clause} detail={v.detail}")
        return 1
    print(f"{PROP} replay {path}: holds")
    return 0
