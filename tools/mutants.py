"""Sensitivity mutants per property: (name, file, old, new, expect)."""

MUTANTS = {
    "C02": [
        ("strip", "mysensors/message.py", "list_data = data.rstrip().split(delimiter)", "list_data = data.strip().split(delimiter)", "green"),
        ("strip_payload", "mysensors/message.py", "self.payload = list_data.pop()", "self.payload = list_data.pop().strip()", "caught"),
        ("swap_ack_sub", "mysensors/message.py", "                            int(self.ack),\n                            int(self.sub_type),", "                            int(self.sub_type),\n                            int(self.ack),", "caught"),
        ("enum_by_name", "mysensors/message.py", "                            int(self.node_id),", "                            self.node_id,", "caught"),
        ("copy_shares", "mysensors/message.py", "        msg = Message(self.encode(), self.gateway)\n", "        msg = self\n", "caught"),
        ("copy_drops_gateway", "mysensors/message.py", "        msg = Message(self.encode(), self.gateway)\n", "        msg = Message(self.encode())\n", "caught"),
        ("split_max", "mysensors/message.py", "list_data = data.rstrip().split(delimiter)", "list_data = data.rstrip().split(delimiter, 5)", "caught"),
        ("rsplit_first", "mysensors/message.py", "list_data = data.rstrip().split(delimiter)", "list_data = data.rstrip().rsplit(delimiter, 5)", "green"),
        ("isdigit_guard", "mysensors/message.py", "                int(f) for f in list_data\n", "                int(f) for f in list_data if f.strip().lstrip('-').isdigit() or int(f) is None\n", "caught"),
    ],
    "C03": [
        ("max_node_255", "mysensors/const_14.py", "MAX_NODE_ID = 254", "MAX_NODE_ID = 255", "caught"),
        ("node_range_254", "mysensors/message.py", "                max=BROADCAST_ID,\n", "                max=BROADCAST_ID - 1,\n", "caught"),
        ("drop_setreq_row", "mysensors/const_15.py", "    SetReq.V_ID: str,\n", "", "caught"),
        ("speed_loses_auto", "mysensors/const_15.py", "        [MIN, NORMAL, MAX, AUTO],", "        [MIN, NORMAL, MAX],", "caught"),
        ("no_15_internal", "mysensors/const_15.py", "        Internal.I_GET_NONCE_RESPONSE: str,\n", "", "caught"),
        ("ack_2", "mysensors/message.py", "valid_ack = vol.In([0, 1],", "valid_ack = vol.In([0, 1, 2],", "caught"),
        ("child255_any_type", "mysensors/message.py", "        if self.child_id == SYSTEM_CHILD_ID:\n            valid_types", "        if self.child_id == SYSTEM_CHILD_ID + 1000:\n            valid_types", "caught"),
        ("rgb_len7", "mysensors/const_15.py", "    if len(value) != 6:", "    if len(value) != 7:", "caught"),
        ("pct_101", "mysensors/validation.py", "vol.Range(min=0, max=100))", "vol.Range(min=0, max=101))", "caught"),
        ("gps_two_parts", "mysensors/const_20.py", "        latitude, longitude, altitude = value.split(\",\")", "        latitude, longitude, altitude = (value.split(\",\") + [\"0\"])[:3]", "caught"),
        ("version_gt", "mysensors/validation.py", "        if AwesomeVersion(\"1.4\") > AwesomeVersion(value):", "        if AwesomeVersion(\"1.4\") >= AwesomeVersion(value):", "caught"),
        ("stream_child_any", "mysensors/message.py", "        if self.type in (const.MessageType.internal, const.MessageType.stream):", "        if self.type in (const.MessageType.internal,):", "caught"),
        ("id_req_child_strict", "mysensors/message.py", "            const.Internal.I_ID_REQUEST,\n            const.Internal.I_ID_RESPONSE,\n        ]:", "            const.Internal.I_ID_REQUEST,\n        ]:", "caught"),
        ("power_factor_0_1", "mysensors/const_20.py", "vol.Range(min=-1.0, max=1.0),", "vol.Range(min=0.0, max=1.0),", "caught"),
        ("valid_types_typo", "mysensors/const_20.py", "        Presentation.S_INFO: [SetReq.V_TEXT],\n", "", "caught"),
        ("heartbeat_resp_any", "mysensors/const_20.py", "        Internal.I_HEARTBEAT_RESPONSE: vol.All(vol.Coerce(int), vol.Coerce(str)),", "        Internal.I_HEARTBEAT_RESPONSE: str,", "caught"),
        ("presleep_22_str", "mysensors/const_22.py", "        Internal.I_PRE_SLEEP_NOTIFICATION: vol.All(vol.Coerce(int), vol.Coerce(str)),", "        Internal.I_PRE_SLEEP_NOTIFICATION: str,", "caught"),
    ],
}
