"""atheris (coverage-guided) engines; filled in later."""


def run_atheris(run, target, runs):
    run.stats.notes.append(f"atheris target {target} not run (engine not built yet)")
