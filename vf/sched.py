"""Line-level cooperative scheduler + bounded-DFS interleaving explorer.

Each body runs in a real (daemon) thread under sys.settrace. On every `line` event
inside one of the traced source files the thread parks and the scheduler - the only
thing that ever lets a thread continue - picks who runs next. A schedule is the list
of choices made at the decision points; exploration is stateless DFS over schedules
with a bound on the number of pre-emptions (switching away from a thread that could
have continued).
"""
import sys
import threading

from vf.common import HarnessError


class Deadlock(Exception):
    pass


class Aborted(BaseException):
    """Raised inside parked body threads when a run is abandoned."""


class CoopLock:
    """A lock the scheduler understands (a real Lock would block inside C code)."""

    def __init__(self, sched):
        self._sched = sched
        self._owner = None

    def acquire(self, blocking=True, timeout=-1):
        self._sched.wait_until(lambda: self._owner is None)
        self._owner = threading.get_ident()
        return True

    def release(self):
        self._owner = None

    def locked(self):
        return self._owner is not None

    def __enter__(self):
        self.acquire()
        return self

    def __exit__(self, *exc):
        self.release()
        return False


class Run:
    """One execution of the bodies under a given schedule prefix."""

    def __init__(self, bodies, traced_files, prefix=(), stuck_timeout=10.0):
        self.bodies = bodies
        self.files = tuple(traced_files)
        self.prefix = list(prefix)
        self.cond = threading.Condition()
        self.turn = None
        self.parked = {}  # idx -> predicate or None
        self.done = set()
        self.errors = {}
        self.decisions = []  # (enabled tuple, chosen, current)
        self.current = None
        self.stuck_timeout = stuck_timeout
        self.idents = {}
        self.steps = 0
        self.max_steps = 5000
        self.fair_limit = 300
        self.streak = 0
        self.abort = False

    # -- called from body threads ------------------------------------------------
    def _index(self):
        return self.idents.get(threading.get_ident())

    def _park(self, idx, predicate=None):
        with self.cond:
            self.parked[idx] = predicate
            self.cond.notify_all()
            while self.turn != idx and not self.abort:
                self.cond.wait()
            if self.abort:
                self.parked.pop(idx, None)
                raise Aborted()
            self.turn = None
            del self.parked[idx]

    def wait_until(self, predicate):
        """Cooperative blocking point: the thread is not runnable until predicate()."""
        idx = self._index()
        if idx is None:
            raise HarnessError("wait_until called outside a scheduled thread")
        while not predicate():
            self._park(idx, predicate)

    def yield_point(self):
        idx = self._index()
        if idx is not None:
            self._park(idx)

    def _tracer(self, frame, event, arg):
        if event != "call":
            return None
        if not frame.f_code.co_filename.endswith(self.files):
            return None
        return self._local

    def _local(self, frame, event, arg):
        if event == "line":
            idx = self._index()
            if idx is not None:
                self._park(idx)
        return self._local

    def _thread_main(self, idx, body):
        self.idents[threading.get_ident()] = idx
        sys.settrace(self._tracer)
        try:
            self._park(idx)  # do not start before the scheduler says so
            body()
        except Aborted:
            pass
        except BaseException as exc:  # pylint: disable=broad-except
            self.errors[idx] = exc
        finally:
            sys.settrace(None)
            with self.cond:
                self.done.add(idx)
                self.cond.notify_all()

    # -- scheduler -----------------------------------------------------------------
    def _abandon(self):
        self.abort = True
        self.cond.notify_all()

    def execute(self):
        n = len(self.bodies)
        threads = [threading.Thread(target=self._thread_main, args=(i, b), daemon=True) for i, b in enumerate(self.bodies)]
        for t in threads:
            t.start()
        pos = 0
        while True:
            with self.cond:
                ok = self.cond.wait_for(lambda: self.turn is None and len(self.parked) + len(self.done) == n, timeout=self.stuck_timeout)
                if not ok:
                    self._abandon()
                    raise HarnessError(f"scheduler stuck: parked={sorted(self.parked)} done={sorted(self.done)} turn={self.turn}")
                if len(self.done) == n:
                    break
                enabled = []
                for idx, pred in sorted(self.parked.items()):
                    try:
                        if pred is None or pred():
                            enabled.append(idx)
                    except Exception:  # pylint: disable=broad-except
                        enabled.append(idx)
                if not enabled:
                    self.deadlock = sorted(self.parked)
                    self._abandon()  # release everybody so that the daemon threads do not linger
                    raise Deadlock(f"threads {sorted(self.parked)} wait forever")
                if pos < len(self.prefix) and self.prefix[pos] in enabled:
                    chosen = self.prefix[pos]
                elif self.current in enabled:
                    chosen = self.current
                    # fairness beyond the prescribed prefix: a thread that spins (a retry loop that only another
                    # thread can end) is not allowed to starve the others for ever
                    if self.streak > self.fair_limit and len(enabled) > 1:
                        others = [i for i in enabled if i != self.current]
                        chosen = others[0]
                else:
                    chosen = enabled[0]
                self.streak = self.streak + 1 if chosen == self.current else 0
                self.decisions.append((tuple(enabled), chosen, self.current))
                pos += 1
                self.steps += 1
                if self.steps > self.max_steps:
                    self._abandon()
                    raise HarnessError("schedule does not terminate")
                self.current = chosen
                self.turn = chosen
                self.cond.notify_all()
        for t in threads:
            t.join(1)
        return self


def preemptions(decisions):
    count = 0
    for enabled, chosen, current in decisions:
        if current is not None and current in enabled and chosen != current:
            count += 1
    return count


def explore(make_bodies, traced_files, bound, on_run, max_runs=200000):
    """Enumerate all schedules with <= bound pre-emptions.

    make_bodies() -> (bodies, context): fresh objects per run; on_run(run, context) is called
    after every execution (the oracle). Returns number of runs.
    """
    stack = [[]]
    runs = 0
    seen = set()
    while stack and runs < max_runs:
        prefix = stack.pop()
        bodies, ctx = make_bodies()
        run = Run(bodies, traced_files, prefix)
        ctx["run"] = run
        try:
            run.execute()
        except Deadlock as exc:
            run.deadlock_error = exc
        runs += 1
        if on_run(run, ctx) == "stop":
            break
        chosen = [d[1] for d in run.decisions]
        key = tuple(chosen)
        if key in seen:
            continue
        seen.add(key)
        for p in range(len(prefix), len(run.decisions)):
            enabled, ch, current = run.decisions[p]
            for alt in enabled:
                if alt == ch:
                    continue
                new = chosen[:p] + [alt]
                cost = preemptions(run.decisions[:p]) + (1 if (current is not None and current in enabled and alt != current) else 0)
                if cost <= bound:
                    stack.append(new)
    return runs


def run_schedule(make_bodies, traced_files, schedule):
    bodies, ctx = make_bodies()
    run = Run(bodies, traced_files, schedule)
    ctx["run"] = run
    try:
        run.execute()
    except Deadlock as exc:
        run.deadlock_error = exc
    return run, ctx
