"""Sensitivity mutants per property: (name, file, old, new, expect)."""

MUTANTS = {
    "C02": [
        ("strip", "mysensors/message.py", "list_data = data.rstrip().split(delimiter)", "list_data = data.strip().split(delimiter)", "green"),
        ("strip_payload", "mysensors/message.py", "self.payload = list_data.pop()", "self.payload = list_data.pop().strip()", "caught"),
        ("swap_ack_sub", "mysensors/message.py", "                            int(self.ack),\n                            int(self.sub_type),", "                            int(self.sub_type),\n                            int(self.ack),", "caught"),
        ("enum_by_name", "mysensors/message.py", "                            int(self.node_id),", "                            self.node_id,", "caught"),
        ("copy_shares", "mysensors/message.py", "        msg = Message(self.encode(), self.gateway)\n", "        msg = self\n", "caught"),
        ("copy_drops_gateway", "mysensors/message.py", "        msg = Message(self.encode(), self.gateway)\n", "        msg = Message(self.encode())\n", "caught"),
        ("split_max", "mysensors/message.py", "list_data = data.rstrip().split(delimiter)", "list_data = data.rstrip().split(delimiter, 5)", "caught"),
        ("rsplit_first", "mysensors/message.py", "list_data = data.rstrip().split(delimiter)", "list_data = data.rstrip().rsplit(delimiter, 5)", "green"),
        ("isdigit_guard", "mysensors/message.py", "                int(f) for f in list_data\n", "                int(f) for f in list_data if f.strip().lstrip('-').isdigit() or int(f) is None\n", "caught"),
    ],
}
