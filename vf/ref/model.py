"""Reference gateway: the protocol meaning of a history of inbound frames and
controller calls, written from the property statements (C04, C05, C07, C08, C10),
not from the code. No voluptuous, no enums, no handler registry.

A step returns an Expect describing what the gateway is allowed/required to do:
  sent     ordered list of field tuples that must reach the transport in this step
           (ack of an emitted command is not compared - any of 0/1 is allowed)
  free_tail number of trailing entries of `sent` whose mutual order is not pinned
  callback "must" (exactly one), "may" (at most one) or "none"
  ID       placeholder object standing for "some fresh node id" in a payload
Where the statements leave a choice the model keeps a *set* of possibilities and
narrows it from what is observed (commit_* methods).
"""
import calendar

from . import tables as T
from . import validate as V
from . import ota as O


class FreshId:
    def __repr__(self):
        return "<fresh-id>"


ID = FreshId()


class Expect:
    def __init__(self, accepted=True):
        self.accepted = accepted
        self.sent = []
        self.free_tail = 0
        self.callback = "none"
        self.id_request = False  # an id response (payload ID) is expected if allocatable
        self.wake = None  # node id whose wake-up burst this step is
        self.malformed_fw = False
        self.labels = []
        self.ota = None  # [(next_state, [sent...])] alternatives for a firmware request

    def __repr__(self):
        return f"Expect(sent={self.sent}, free_tail={self.free_tail}, cb={self.callback}, ota={self.ota})"


class Child:
    def __init__(self, ctype, desc):
        self.type = ctype
        self.description = desc
        self.values = {}  # vt -> payload text, insertion ordered


class Node:
    def __init__(self, nid):
        self.id = nid
        self.type = None
        self.version = {"1.4"}  # set of allowed stored protocol versions
        self.battery = 0
        self.heartbeat = 0
        self.sketch_name = None
        self.sketch_version = None
        self.children = {}
        # smart sleep
        self.covered = set()  # children known at the last wake-up (desired state exists)
        self.hold = []  # withheld replies, oldest first
        self.desired = {}  # (child, vt) -> value (raw object given by the controller)
        # ota
        self.reboot = False
        self.ota = {"idle"}  # possible session states
        self.fw = None  # (type, version) scheduled

    @property
    def sleeping(self):
        return bool(self.covered)


class Gateway:
    def __init__(self, version, metric=True):
        self.version = version
        self.metric = metric
        self.nodes = {}
        self.firmware = {}  # (type, ver) -> image bytes (unpadded)
        self.handed_out = []  # ids given by id responses, in order
        self.clock = None  # struct_time returned by the stubbed localtime
        self.v2 = T.at_least(version, "2.0")

    # -- helpers ------------------------------------------------------------
    def projection(self):
        out = {}
        for nid, n in self.nodes.items():
            out[nid] = {
                "type": n.type,
                "protocol_version": set(n.version),
                "battery_level": n.battery,
                "heartbeat": n.heartbeat,
                "sketch_name": n.sketch_name,
                "sketch_version": n.sketch_version,
                "children": {
                    cid: {"type": c.type, "description": c.description, "values": dict(c.values)}
                    for cid, c in n.children.items()
                },
            }
        return out

    def _emit(self, exp, fields, free=False):
        """Route an outbound command: withheld if its destination sleeps."""
        dest = fields[0]
        node = self.nodes.get(dest)
        if node is not None and node.sleeping and fields[2] != T.STREAM:
            node.hold.append(fields)
            return
        exp.sent.append(fields)
        if free:
            exp.free_tail += 1

    def _need(self, exp, nid, cid=None):
        """Is node (and child) known? If not (>= 2.0): one presentation request."""
        node = self.nodes.get(nid)
        ok = node is not None and (cid is None or cid in node.children)
        if not ok and self.v2:
            self._emit(exp, (nid, 255, T.INTERNAL, 0, 19, ""))
        return ok

    def restart(self):
        """A new gateway object loaded from the persistence file: the tree survives, everything transient
        (smart-sleep bookkeeping, withheld replies, reboot requests, firmware and sessions, settings) starts afresh."""
        self.metric = True
        self.firmware = {}
        for node in self.nodes.values():
            node.covered = set()
            node.hold = []
            node.desired = {}
            node.reboot = False
            node.ota = {"idle"}
            node.fw = None

    def can_allocate(self):
        """Even the simplest allocator (largest known id + 1) finds a free id."""
        return (max(self.nodes) if self.nodes else 0) < T.MAX_NODE

    # -- inbound ------------------------------------------------------------
    def inbound(self, fields):
        verdict = V.validate(self.version, fields)
        if verdict is None:
            raise ValueError(f"model cannot follow an unpinned frame: {fields}")
        if not verdict:
            return Expect(accepted=False)
        exp = Expect()
        nid, cid, cmd, ack, sub, payload = fields
        if cmd == T.PRESENTATION:
            self._presentation(exp, fields)
        elif cmd == T.SET:
            if self._need(exp, nid, cid):
                node = self.nodes[nid]
                child = node.children[cid]
                changed = child.values.get(sub, None) != payload or sub not in child.values
                child.values[sub] = payload
                if cid in node.covered:
                    node.desired[(cid, sub)] = None
                exp.callback = "must" if changed else "may"
                if node.reboot:
                    self._emit(exp, (nid, 255, T.INTERNAL, 0, 13, ""))
        elif cmd == T.REQ:
            if self._need(exp, nid, cid):
                node = self.nodes[nid]
                value = None
                if node.sleeping:
                    value = node.desired.get((cid, sub))
                if value is not None and sub not in node.children[cid].values:
                    exp.labels.append("req-answered-from-desired-only")
                if value is None:
                    value = node.children[cid].values.get(sub)
                if value is not None:
                    self._emit(exp, (nid, cid, T.SET, ack, sub, str(value)))
        elif cmd == T.INTERNAL:
            self._internal(exp, fields)
        elif cmd == T.STREAM:
            self._stream(exp, fields)
        return exp

    def _presentation(self, exp, fields):
        nid, cid, _, _, sub, payload = fields
        if cid == 255:
            node = self.nodes.get(nid)
            new = node is None
            if new:
                node = self.nodes[nid] = Node(nid)
            verdict = V.version_verdict(payload)
            if verdict is True:
                version = {payload}
            elif verdict is False:
                version = {"1.4"}
            else:
                version = {payload, "1.4"}
            changed = new or node.type != sub or node.version != version
            node.type = sub
            node.version = version
            node.reboot = False
            exp.callback = "must" if changed else "may"
            return
        if not self._need(exp, nid):
            return
        node = self.nodes[nid]
        if cid in node.children:
            exp.callback = "may"
            return
        node.children[cid] = Child(sub, payload)
        exp.callback = "must"

    def _internal(self, exp, fields):
        nid, cid, _, ack, sub, payload = fields
        if sub == 0:  # battery level
            if self._need(exp, nid):
                node = self.nodes[nid]
                exp.callback = "must" if node.battery != int(payload) else "may"
                node.battery = int(payload)
        elif sub == 1:  # time request
            secs = calendar.timegm(self.clock) if self.clock is not None else ID
            self._emit(exp, (nid, cid, T.INTERNAL, 0, 1, str(secs) if secs is not ID else ID))
        elif sub == 3:  # id request
            exp.id_request = True
            self._emit(exp, (nid, cid, T.INTERNAL, 0, 4, ID))
            exp.callback = "may"
        elif sub == 6:  # config
            self._emit(exp, (nid, cid, T.INTERNAL, 0, 6, "M" if self.metric else "I"))
        elif sub == 11:
            if self._need(exp, nid):
                node = self.nodes[nid]
                exp.callback = "must" if node.sketch_name != payload else "may"
                node.sketch_name = payload
        elif sub == 12:
            if self._need(exp, nid):
                node = self.nodes[nid]
                exp.callback = "must" if node.sketch_version != payload else "may"
                node.sketch_version = payload
        elif sub == 14:  # gateway ready
            exp.callback = "may"
            if self.v2:
                self._emit(exp, (255, cid, T.INTERNAL, 0, 20, ""))
        elif sub == 21 and self.v2:  # discover response
            self._need(exp, nid)
        elif sub == 22 and self.v2:  # heartbeat response
            if self._need(exp, nid):
                node = self.nodes[nid]
                if self.version in ("2.0", "2.1"):
                    self._wake(exp, node)
                exp.callback = "must" if node.heartbeat != int(payload) else "may"
                node.heartbeat = int(payload)
        elif sub == 32 and self.version == "2.2":  # pre-sleep notification
            if self._need(exp, nid):
                self._wake(exp, self.nodes[nid])
                exp.callback = "may"
        else:
            exp.callback = "may"

    def _wake(self, exp, node):
        exp.wake = node.id
        node.covered |= set(node.children)
        held, node.hold = node.hold, []
        # The burst bypasses the withholding: it is the wake window
        exp.sent.extend(held)
        for cid, child in node.children.items():
            if cid not in node.covered:
                continue
            for vt in child.values:
                value = node.desired.get((cid, vt))
                if value is None:
                    continue
                exp.sent.append((node.id, cid, T.SET, 0, vt, str(value)))
                exp.free_tail += 1

    # -- OTA ----------------------------------------------------------------
    def _stream(self, exp, fields):
        nid, cid, _, ack, sub, payload = fields
        if not self._need(exp, nid):
            return
        node = self.nodes[nid]
        if sub == 0:
            exp.callback = "may"
            req = O.parse_words(payload, 5)
            if req is None:
                exp.malformed_fw = True
                return  # malformed: ignored
            alts = []
            for state in sorted(node.ota):
                if state in ("requested", "offered") and node.fw in self.firmware:
                    alts.append(("offered", [(nid, cid, T.STREAM, ack, 1, ("config", node.fw))]))
                else:
                    alts.append((state, []))
            exp.ota = alts
        elif sub == 2:
            exp.callback = "may"
            req = O.parse_words(payload, 3)
            if req is None:
                exp.malformed_fw = True
                return
            rtype, rver, blk = req
            alts = []
            for state in sorted(node.ota):
                if state in ("offered", "fetching"):
                    if (rtype, rver) in self.firmware:
                        alts.append(("fetching", [(nid, cid, T.STREAM, ack, 3, ("block", (rtype, rver), blk))]))
                    else:
                        # statement does not pin whether this counts as "started fetching"
                        alts.append(("fetching", []))
                        alts.append((state, []))
                else:
                    alts.append((state, []))
            exp.ota = alts
        else:
            exp.callback = "may"

    def commit_ota(self, nid, new_states):
        self.nodes[nid].ota = set(new_states)

    # -- controller calls ---------------------------------------------------
    def update_fw(self, nids, fw_type, fw_ver, image):
        """Controller schedules an update. Returns False if the call is a no-op."""
        try:
            fw_type, fw_ver = int(fw_type), int(fw_ver)
        except (TypeError, ValueError):
            return False
        if not (0 <= fw_type <= 0xFFFF and 0 <= fw_ver <= 0xFFFF):
            # type and version travel as unsigned 16-bit words: such firmware cannot exist on the wire
            return False
        if image is not None:
            self.firmware[(fw_type, fw_ver)] = bytes(image)
        if (fw_type, fw_ver) not in self.firmware:
            return False
        if not isinstance(nids, list):
            nids = [nids]
        for nid in nids:
            try:
                node = self.nodes.get(nid)
            except TypeError:
                node = None
            if node is None:
                continue
            node.ota = {"requested"}
            node.fw = (fw_type, fw_ver)
            node.reboot = True
        return True

    def set_value_target(self, nid, cid):
        """Classify a controller set-value call: 'unknown', 'sleeping', 'awake'."""
        node = self.nodes.get(nid)
        if node is None or cid not in node.children:
            return "unknown"
        return "sleeping" if node.sleeping else "awake"

    def set_value(self, nid, cid, vt, value, ack, raised, mtype=T.SET):
        """Apply a controller set-value call given whether the real call raised.

        Returns Expect for what must have been emitted by the call itself.
        """
        exp = Expect()
        target = self.set_value_target(nid, cid)
        if target == "unknown":
            self._need(exp, nid, cid)
            return exp
        if raised:
            return exp
        node = self.nodes[nid]
        if target == "sleeping":
            node.desired[(cid, int(vt))] = value
            return exp
        exp.sent.append((nid, cid, int(mtype), int(ack), int(vt), str(value)))
        return exp

    def must_accept_set_value(self, nid, cid, vt, value, ack=0):
        """Non-vacuity: the documented call with a plainly valid value must not raise."""
        target = self.set_value_target(nid, cid)
        if target == "unknown":
            return True  # returns silently
        if type(vt) is bool or not isinstance(vt, int):
            return False
        if ack not in (0, 1):
            return False
        node = self.nodes[nid]
        text = str(value)
        frame = (nid, cid, T.SET, 0, int(vt), text)
        if V.validate(self.version, frame) is not True:
            return False
        if target == "sleeping":
            if cid not in node.covered:
                return False
            # valid for the node's own version too (any of the allowed stored ones)
            for ver in node.version:
                floor = floor_version(ver)
                if floor is None or V.validate(floor, frame) is not True:
                    return False
        return True


def floor_version(text):
    """Greatest supported version not above `text` (numeric), '1.4' if none/unusable."""
    tup = V.version_tuple(text)
    if tup is None:
        return None
    best = "1.4"
    for ver in T.VERSIONS:
        vt = V.version_tuple(ver)
        if vt <= tup:
            best = ver
    return best
