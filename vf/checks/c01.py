"""C01 - the message pump cannot be crashed or tricked by input."""
import glob
import json
import os
import threading
import time

from hypothesis import strategies as st

from vf import common, drive, gen, lockstep
from vf.common import Violation
from vf.ref import codec
from vf.ref import validate as V

PROP = "C01"
RULE = (
    "Hypothesis-generated, state-aware histories (<= 40 ops) over 5 versions x {sync pump over recording "
    "transport, sync pump over the real SyncTransport with a fake connection, asyncio inline, MQTT gateway}: "
    "valid frames, near-valid frames, well-formed frames with ARBITRARY payload (full Unicode, hex-looking, "
    "exotic numerics, 3000 chars), raw/truncated text, set_child_value with arbitrary text incl. ';', firmware "
    "updates, a raising event callback. After every op: nothing may escape the dispatcher/pump/transport.send; a "
    "controller call may raise to its caller (then nothing emitted/changed); a line that is malformed or invalid "
    "for the version (definite reference verdict) must leave the full snapshot (tree, hold queues, desired maps, "
    "reboot flags, OTA stores, callback log, transport log, job queue, subscriptions) untouched. Per version and flavour "
    "one further history feeds every violating boundary-corpus payload of every constrained payload rule to a gateway "
    "that knows the sender; in the serial/TCP flavour lines arrive through the real reader path in reads of <= 120 bytes. Thorough adds "
    "replay into a gateway with the REAL poll thread + liveness probe, and an atheris campaign. Non-trivial = "
    "a near-valid/wild/raw line processed while >= 1 node is known; distinct by hash of the history."
)

FLAVOURS = ("sync", "synct", "async", "mqtt")


def classify(version, text):
    """'malformed' | 'invalid' | 'valid' | 'unpinned'."""
    try:
        fields = codec.decode(text)
    except codec.Malformed:
        return "malformed", None
    verdict = V.validate(version, fields)
    if verdict is None:
        return "unpinned", fields
    return ("valid" if verdict else "invalid"), fields


def run_ops(case, stats=None, flavour=None):
    version = case["version"]
    flavour = flavour or case.get("flavour", "sync")
    driver = drive.Driver(version, flavour)
    gw = driver.gw
    interesting = 0
    deep = False
    for i, op in enumerate(case["ops"]):
        kind = op["op"]
        where = f"step {i} {json.dumps(op, ensure_ascii=True)[:300]} [{flavour}, {version}]"
        if kind == "line":
            text = op["text"]
            cls, fields = classify(version, text)
            if flavour == "mqtt":
                # what the gateway sees is the line rebuilt from topic + payload
                topic, payload, qos = driver.mqtt_inbound(text)
                try:
                    rebuilt = gw.parse_mqtt_to_message(topic, payload, qos)
                except Exception:  # pylint: disable=broad-except
                    rebuilt = None  # the same exception is reported by driver.line below
                if rebuilt is None:
                    cls, fields = "dropped", None
                else:
                    cls, fields = classify(version, rebuilt)
            before = driver.snapshot() if cls in ("malformed", "invalid", "dropped") else None
            step = driver.line(text, raw=bytes.fromhex(op["hex"]) if "hex" in op else None)
            if step.exc is not None:
                raise Violation(
                    f"crash.{type(step.exc).__name__}", case,
                    f"{where}: {cls} line made the pump raise {type(step.exc).__name__}: {step.exc}",
                )
            if before is not None:
                after = driver.snapshot()
                if after != before or step.sent or step.callbacks:
                    raise Violation(
                        "rejected_line_has_effect", case,
                        f"{where}: {cls} line changed {lockstep.diff_keys(before, after)} sent={step.sent} callbacks={len(step.callbacks)}",
                    )
            if cls != "valid" and gw.sensors:
                interesting += 1
                if any(s.new_state for s in gw.sensors.values()) or gw.tasks.ota.requested or gw.tasks.ota.unstarted or gw.tasks.ota.started:
                    deep = True
        elif kind == "set":
            vt = op["vt"]
            if op.get("vt_kind") == "str":
                vt = str(vt)
            kw = {"ack": op["ack"]} if "ack" in op else {}
            before = driver.snapshot()
            step = driver.set_value(op["n"], op["c"], vt, op["value"], **kw)
            if step.exc is not None:
                raise Violation(
                    f"crash.{type(step.exc).__name__}", case,
                    f"{where}: the call returned normally but the pump raised {type(step.exc).__name__}: {step.exc}",
                )
            if step.call_exc is not None:
                after = driver.snapshot()
                if after != before or step.sent:
                    raise Violation("refused_call_has_effect", case, f"{where}: raised {step.call_exc!r} yet changed {lockstep.diff_keys(before, after)}")
        elif kind == "race_set":
            # The threaded gateways run the pump in its own thread while the user's thread calls
            # set_child_value: arm a controller call that lands between two queued commands of the
            # next inbound line (the pump is "pre-empted" at an add_job boundary).
            armed = dict(op)
            tasks = gw.tasks
            orig_add = tasks.add_job
            state = {"n": 0, "call_exc": None, "fired": False}

            def add_job(func, *args, _orig=orig_add, _state=state, _armed=armed):
                if _state["n"] == _armed["at"] and not _state["fired"]:
                    _state["fired"] = True
                    try:
                        gw.set_child_value(_armed["n"], _armed["c"], _armed["vt"], _armed["value"])
                    except Exception as exc:  # pylint: disable=broad-except
                        _state["call_exc"] = exc  # raised to the caller: allowed
                _state["n"] += 1
                return _orig(func, *args)

            tasks.add_job = add_job
            try:
                step = driver.line(op["then"])
            finally:
                tasks.add_job = orig_add
            if step.exc is not None:
                raise Violation(
                    f"crash.{type(step.exc).__name__}", case,
                    f"{where}: a set_child_value call that landed while the pump was processing {op['then']!r} (returned normally: {state['call_exc'] is None}) made the pump raise {type(step.exc).__name__}: {step.exc}",
                )
            if state["fired"]:
                deep = True
                interesting += 1
        elif kind == "fw":
            image = lockstep.image_bytes(op["image"]) if op.get("image") else None
            if op.get("bad_path"):
                step = driver.update_fw(op["nids"], op["type"], op["ver"], path="/nonexistent/vf_fw.hex")
            else:
                step = driver.update_fw(op["nids"], op["type"], op["ver"], image=image, via_path=bool(op.get("via_path")))
            if step.exc is not None:
                raise Violation(f"crash.{type(step.exc).__name__}", case, f"{where}: pump raised {step.exc!r}")
        elif kind == "metric":
            gw.metric = bool(op["value"])
        elif kind == "cb_raise":
            driver.cb_raise = bool(op["value"])
        elif kind == "clock":
            pass
    if stats is not None:
        labels = [flavour, "deep" if deep else "shallow"]
        stats.case(
            common.chash(case) if interesting else None,
            {"version": version, "flavour": flavour, "ops": case["ops"][:10], "n_ops": len(case["ops"])},
            labels=labels,
        )
    return driver


def minimise(v):
    case, clause = v.case, v.clause

    def fails(ops):
        try:
            run_ops(dict(case, ops=ops))
        except Violation as vv:
            return vv.clause == clause
        except Exception:  # pylint: disable=broad-except
            return False
        return False

    ops = common.ddmin(case["ops"], fails)
    try:
        run_ops(dict(case, ops=ops))
    except Violation as vv:
        return vv
    return v


GEN = dict(
    respell=False,  # the MQTT flavour carries the header in topic levels; other spellings are C02's and C05's business
    max_ops=40, wire_carriable=False, allow_unpinned=True, wild_vt=True, flavours=FLAVOURS,
    op_weights=dict(valid=45, wild=18, near=10, raw=8, set=12, fw=4, cb_raise=2, metric=1, clock=0, race=3, desire=6),
)


@st.composite
def cases_with_wire_noise(draw):
    """The generated history plus up to two lines whose BYTES carry an invalid UTF-8 sequence (line noise): the
    reader replaces such bytes by U+FFFD, so `text` is what the gateway must see - a line that is malformed or
    invalid with the replacement character must not become valid by losing the bytes."""
    case = draw(gen.histories(**GEN))
    ops = case["ops"]
    for _ in range(draw(st.integers(0, 2))):
        lines = [i for i, op in enumerate(ops) if op["op"] == "line" and "hex" not in op and "\n" not in op["text"] and len(op["text"]) < 400]
        if not lines:
            break
        i = draw(st.sampled_from(lines))
        raw = ops[i]["text"].encode("utf-8")
        last = raw.rfind(b";") + 1
        pos = draw(st.sampled_from([0, 1, last, last, len(raw)])) if draw(st.booleans()) else draw(st.integers(0, len(raw)))
        junk = draw(st.sampled_from([b"\xff", b"\xfe", b"\xc3", b"\xe2\x82", b"\x80", b"\xf0\x9f"]))
        noisy = raw[:pos] + junk + raw[pos:]
        text = noisy.decode("utf-8", "replace")
        if "\n" in text:
            continue
        ops.insert(draw(st.integers(i, len(ops))), {"op": "line", "text": text, "hex": noisy.hex()})
    return case


def _shard(args):
    seed_value, n = args
    common.setup_path()
    stats = common.Stats()
    common.run_given(stats, cases_with_wire_noise(), lambda c: run_ops(c, stats), n, seed_value, shrink=False)
    out = []
    for v in stats.violations:
        vv = minimise(Violation(v["clause"], v["case"], v["detail"]))
        out.append({"clause": vv.clause, "case": vv.case, "detail": vv.detail})
    stats.violations = out
    return stats


# -- thorough: the same histories against a gateway whose real poll thread runs ----------


def live_thread_run(case):
    """Feed the lines through handle_line-style add_job while SyncTasks._poll_queue runs."""
    import mysensors

    version = case["version"]
    transport = drive.RecTransport()
    gw = mysensors.BaseSyncGateway(transport, protocol_version=version)
    errors = []
    old_hook = threading.excepthook
    threading.excepthook = lambda a: errors.append(a)
    thread = threading.Thread(target=gw.tasks._poll_queue, daemon=True)  # pylint: disable=protected-access
    thread.start()
    try:
        for op in case["ops"]:
            if op["op"] == "line":
                gw.tasks.add_job(gw.logic, op["text"])
            elif op["op"] == "set":
                try:
                    gw.set_child_value(op["n"], op["c"], op["vt"], op["value"])
                except Exception:  # pylint: disable=broad-except
                    pass
            elif op["op"] == "fw":
                image = lockstep.image_bytes(op["image"]) if op.get("image") else None
                try:
                    gw.tasks.ota.make_update(op["nids"], op["type"], op["ver"], image)
                except Exception:  # pylint: disable=broad-except
                    pass
        # liveness probe: a config request must still be answered by the running thread
        mark = len(transport.log)
        gw.tasks.add_job(gw.logic, "0;255;3;0;6;0")
        deadline = time.time() + 5.0
        answered = False
        while time.time() < deadline and thread.is_alive():
            if any(l.startswith("0;255;3;0;6;") for l in transport.log[mark:]):
                answered = True
                break
            time.sleep(0.005)
        if errors or not thread.is_alive():
            exc = errors[0].exc_value if errors else None
            raise Violation(
                f"poll_thread_died.{type(exc).__name__}", case,
                f"the poll thread died with {exc!r}; probe answered={answered}",
            )
        return answered
    finally:
        gw.tasks._stop_event.set()  # pylint: disable=protected-access
        thread.join(2)
        threading.excepthook = old_hook


def _live_shard(args):
    seed_value, n = args
    common.setup_path()
    stats = common.Stats()

    def body(case):
        answered = live_thread_run(case)
        stats.case(common.chash(case) if answered else None, None, labels=("live-thread", "probe-answered" if answered else "probe-slow"))

    common.run_given(stats, gen.histories(**dict(GEN, flavours=("sync",), max_ops=25)), body, n, seed_value, shrink=False)
    return stats


# -- every payload rule's violating corpus against a gateway that knows the sender -----------------------------


def corpus_case(version, flavour):
    """One history per version: a known node with children, then - for every defined (command, sub-type) whose
    payload is constrained - every corpus payload the reference calls invalid. None of them may have any effect."""
    from vf.checks.c03 import corpus_for
    from vf.ref import tables as T

    ops = [{"op": "line", "text": t} for t in ("1;255;0;0;17;2.0", "1;0;0;0;3;dimmer", "1;1;0;0;6;temp", "1;0;1;0;2;1", "1;1;1;0;0;20.5")]
    for cmd in T.COMMANDS:
        for sub in range(T.MAX_SUB[version][cmd] + 1):
            rule = T.payload_rule(version, cmd, sub)
            if rule[0] == "any":
                continue
            child = 255 if cmd in (T.INTERNAL, T.STREAM) or rule[0] == "version" else sub % 2
            for payload in corpus_for(rule):
                fields = (1, child, cmd, 0, sub, payload)
                if codec.carriable(payload) and V.validate(version, fields) is False:
                    ops.append({"op": "line", "text": codec.encode(fields)[:-1]})
    return {"version": version, "flavour": flavour, "ops": ops, "corpus": True}


def _corpus_worker(args):
    version, flavour = args
    common.setup_path()
    stats = common.Stats()
    case = corpus_case(version, flavour)
    try:
        run_ops(case, stats)
    except Violation as v:
        vv = minimise(v)
        stats.violation(vv.clause, vv.case, vv.detail)
    stats.label("corpus-lines", len(case["ops"]))
    return stats


def regression(run):
    for path in sorted(glob.glob(os.path.join(common.REPLAY_DIR, f"{PROP}-*.json"))):
        body = json.load(open(path, encoding="utf-8"))
        try:
            run_ops(body["case"], run.stats)
            run.stats.label("regression-replays")
        except Violation as v:
            run.stats.violation(v.clause, v.case, f"[regression {os.path.basename(path)}] {v.detail}")


def main(tier):
    run = common.Run(
        PROP, tier, "exploration", RULE,
        assumptions=[
            "tri-state reference validator decides which lines must have no effect; unpinned lines are only required not to crash",
            "the harness executes the poll-loop body itself (deterministic); the real thread is used in the thorough tier",
        ],
    )
    regression(run)
    shards, n = (16, 160) if tier == "quick" else (16, 3000)
    jobs = [(common.shard_seed(common.seed(), i), n) for i in range(shards)]
    for stats in common.pool_map(_shard, jobs):
        run.stats.merge(stats)
    from vf.ref import tables as T

    for stats in common.pool_map(_corpus_worker, [(v, f) for v in T.VERSIONS for f in ("sync", "async", "mqtt")]):
        run.stats.merge(stats)
    if tier == "thorough":
        jobs = [(common.shard_seed(common.seed(), 100 + i), 40) for i in range(8)]
        for stats in common.pool_map(_live_shard, jobs):
            run.stats.merge(stats)
        from vf import fuzz

        fuzz.run_atheris(run, "c01", runs=40000)
    return run.finish()


def replay(path):
    common.setup_path()
    body = json.load(open(path, encoding="utf-8"))
    try:
        run_ops(body["case"])
        if body.get("live"):
            live_thread_run(body["case"])
    except Violation as v:
        print(f"VIOLATION property={PROP} replay={path}")
        print(f"  clause={v.clause} detail={v.detail}")
        return 1
    print(f"{PROP} replay {path}: holds")
    return 0
