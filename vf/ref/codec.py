"""Reference wire codec, written from the MySensors serial API description:

    node-id ; child-sensor-id ; command ; ack ; type ; payload \\n

Independent of mysensors.message: no int(), no str.split on the code path that
decides acceptance of a header field (unicodedata.decimal based integer
reader), so that it can serve as the oracle for C02 and as the decoder for
every other check.
"""
import unicodedata

# Python's int() refuses more than this many digits (sys.get_int_max_str_digits)
MAX_DIGITS = 4000


class Malformed(Exception):
    """The line is not a six-field frame with five integer header fields."""


def _is_blank(ch):
    return ch.isspace()


def strip_trailing(line):
    end = len(line)
    while end and _is_blank(line[end - 1]):
        end -= 1
    return line[:end]


def _int_blank(ch):
    """Blanks that int() ignores around a number: ASCII \\t\\n\\v\\f\\r and space,
    plus every non-ASCII Unicode space (but not the ASCII separators 0x1c-0x1f)."""
    return ch in " \t\n\x0b\x0c\r" or (ord(ch) >= 128 and ch.isspace())


def parse_int(text):
    """Integer value of `text` under the spellings Python's int() accepts.

    Optional surrounding blanks, optional sign, decimal digits of any script,
    single underscores between digits. Returns None if not such a spelling.
    """
    start, end = 0, len(text)
    while start < end and _int_blank(text[start]):
        start += 1
    while end > start and _int_blank(text[end - 1]):
        end -= 1
    body = text[start:end]
    if not body:
        return None
    sign = 1
    if body[0] in "+-":
        sign = -1 if body[0] == "-" else 1
        body = body[1:]
    if not body:
        return None
    value = 0
    prev_digit = False
    ndigits = 0
    for ch in body:
        if ch == "_":
            if not prev_digit:
                return None
            prev_digit = False
            continue
        dec = unicodedata.decimal(ch, None)
        if dec is None:
            return None
        value = value * 10 + dec
        ndigits += 1
        prev_digit = True
    if not prev_digit:
        return None
    if ndigits > MAX_DIGITS:
        return None
    return sign * value


def is_canonical_int(text):
    """ASCII `-?\\d+` without blanks, sign '+', underscores or foreign digits."""
    body = text[1:] if text[:1] == "-" else text
    return bool(body) and all("0" <= ch <= "9" for ch in body)


def decode(line):
    """Return (node, child, command, ack, sub_type, payload) or raise Malformed."""
    fields = []
    cur = []
    for ch in strip_trailing(line):
        if ch == ";":
            fields.append("".join(cur))
            cur = []
        else:
            cur.append(ch)
    fields.append("".join(cur))
    if len(fields) != 6:
        raise Malformed(f"{len(fields)} fields")
    head = []
    for f in fields[:5]:
        val = parse_int(f)
        if val is None:
            raise Malformed(f"header {f!r}")
        head.append(val)
    return (head[0], head[1], head[2], head[3], head[4], fields[5])


def header_spelling_canonical(line):
    """True if all five header fields of a decodable line are canonical ints."""
    parts = strip_trailing(line).split(";")
    return len(parts) == 6 and all(is_canonical_int(p) for p in parts[:5])


def encode(fields):
    node, child, cmd, ack, sub, payload = fields
    return f"{int(node)};{int(child)};{int(cmd)};{int(ack)};{int(sub)};{payload}\n"


def carriable(payload):
    """Can the wire format carry this payload unchanged?"""
    if ";" in payload or "\n" in payload or "\r" in payload:
        return False
    return not payload or not _is_blank(payload[-1])
