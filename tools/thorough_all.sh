#!/bin/sh
cd "$(dirname "$0")/.." 2>/dev/null
./setup.sh >/dev/null 2>&1
for c in C02 C03 C04 C05 C06 C07 C08 C09 C10 C11 C12 C13 C14 C15 C16 C17 C18 C19 C20 C01; do
  s=$(date +%s)
  VERIF_EVIDENCE_DIR=$PWD/ev_thorough VERIF_RUN_REPLAY_DIR=$PWD/rp_thorough ./check $c --tier thorough > out_$c.log 2>&1
  rc=$?
  e=$(date +%s)
  echo "$c rc=$rc secs=$((e-s)) $(tail -1 out_$c.log | cut -c1-200)"
  grep -h "VIOLATION\|clause=\|HARNESS" out_$c.log | cut -c1-300 | head -6
done
