"""C14 - a clean stop loses nothing."""
import glob
import json
import os

from hypothesis import strategies as st

from vf import common, drive, gen, persist
from vf.common import Violation
from vf.checks.c11 import apply_ops, first_diff

PROP = "C14"
RULE = (
    "5 versions x {json, pickle}: Hypothesis-generated histories of inbound lines of every handler kind "
    "(node/child presentation, set, battery, sketch name/version, heartbeat, id request, gateway-ready, stream, "
    "log, discover response, wake-ups) and controller calls, with periodic-save ticks (the fake threading.Timer "
    "callback is fired by the harness) at drawn positions - biased so that a tick falls right before the last "
    "state change - ended by stop(); in a third of the cases a second gateway with its own file lives in the same process "
    "and its traffic and periodic saves are interleaved; in a quarter of the cases a file of a previous run exists and the first messages are handled before start_persistence() is called (sometimes called twice); the file is named absolutely, by bare name, as ./name or below a sub-directory of the working directory. A fifth of the histories run through the asyncio gateway (harness-driven scheduler sleep) and end with `await stop()` while a reconnect attempt of the transport is pending / finished / absent. Oracle: typed projection before stop() == typed projection of a fresh "
    "gateway after start_persistence() on the same file. Non-trivial = >= 1 tick strictly between two state "
    "changes and the last state change after the last tick; distinct by (version, format, kind of last change, "
    "history hash)."
)


@st.composite
def cases(draw):
    hist = draw(gen.histories(max_ops=22, min_ops=2, flavours=("sync",), cb_raise=False,
                              op_weights=dict(near=2, raw=1, set=6, fw=2, clock=0, metric=0, cb_raise=0)))
    ops = list(hist["ops"])
    # a final state change of a drawn kind (so that every handler kind ends a history now and then)
    nid = draw(st.sampled_from(gen.NODE_POOL[:3]))
    tail_kind = draw(st.sampled_from(["idreq", "node", "child", "set", "set_rebooting", "confirm_desired", "battery", "sketch_name", "sketch_version", "heartbeat", "none"]))
    version = hist["version"]
    tail = {
        "idreq": "255;255;3;0;3;",
        "node": f"{nid};255;0;0;17;2.1",
        "child": f"{nid};{draw(st.integers(0, 5))};0;0;6;late",
        "set": f"{nid};0;1;0;0;{draw(st.integers(-40, 40))}",
        "set_rebooting": f"{nid};0;1;0;0;{draw(st.integers(41, 80))}",  # a value reported while a firmware update is pending
        "confirm_desired": f"{nid};0;1;0;2;1",  # a sleeping node reports exactly the value the controller asked for
        "battery": f"{nid};255;3;0;0;{draw(st.integers(0, 100))}",
        "sketch_name": f"{nid};255;3;0;11;sk{draw(st.integers(0, 99))}",
        "sketch_version": f"{nid};255;3;0;12;{draw(st.integers(0, 9))}.{draw(st.integers(0, 9))}",
        "heartbeat": f"{nid};255;3;0;22;{draw(st.integers(0, 99999))}" if version >= "2.0" else f"{nid};255;3;0;0;7",
        "none": None,
    }[tail_kind]
    n_ticks = draw(st.integers(0, 4))
    for _ in range(n_ticks):
        ops.insert(draw(st.integers(0, len(ops))), {"op": "tick"})
    if tail_kind == "confirm_desired":
        from vf.ref import tables as T

        wake = T.wake_sub(version)
        ops.append({"op": "line", "text": f"{nid};255;0;0;17;2.0"})
        ops.append({"op": "line", "text": f"{nid};0;0;0;3;relay"})
        ops.append({"op": "line", "text": f"{nid};0;1;0;2;0"})
        if wake is not None:
            ops.append({"op": "line", "text": f"{nid};255;3;0;{wake};5"})
        ops.append({"op": "tick"})
        ops.append({"op": "set", "n": nid, "c": 0, "vt": 2, "value": "1"})
        if wake is not None:
            ops.append({"op": "line", "text": f"{nid};255;3;0;{wake};6"})
        if version == "2.2":
            ops.append({"op": "tick"})  # (the 2.2 wake-up announcement is no report: the file is up to date again)
    if tail_kind == "set_rebooting":
        ops.append({"op": "line", "text": f"{nid};255;0;0;17;2.0"})
        ops.append({"op": "line", "text": f"{nid};0;0;0;6;t"})
        ops.append({"op": "fw", "nids": [nid], "type": 1, "ver": 1, "image": {"len": 40, "seed": 1, "fill": "random"}})
    if tail is not None:
        if draw(st.booleans()):
            ops.append({"op": "tick"})
        ops.append({"op": "line", "text": tail})
    case = {"version": version, "ext": draw(st.sampled_from(["json", "pickle"])), "ops": ops, "tail": tail_kind}
    case["shape"] = draw(st.sampled_from(["abs", "abs", "bare", "dot", "sub", "dotdir", "bakdir"]))  # how the application names the file
    if draw(st.integers(0, 3)) == 0:
        # a file from a previous run exists, and the first messages of this run are handled BEFORE the application
        # calls start_persistence() (the transport is started first); now and then it calls it a second time
        case["previous"] = [f"{n};255;0;0;17;2.0" for n in draw(st.lists(st.integers(30, 34), min_size=1, max_size=2, unique=True))]
        case["early"] = draw(st.integers(1, max(1, len(ops))))
        if draw(st.integers(0, 2)) == 0:
            ops.insert(draw(st.integers(0, len(ops))), {"op": "start_again"})
    if draw(st.integers(0, 2)) == 0:
        # a second gateway with its own persistence file lives in the same process (two serial ports, say):
        # its traffic and its periodic saves are interleaved with the history
        case["neighbour"] = True
        for _ in range(draw(st.integers(1, 4))):
            pos = draw(st.integers(0, len(ops)))
            ops.insert(pos, draw(st.sampled_from([{"op": "ntick"}, {"op": "ntick"}, {"op": "nline", "text": f"{draw(st.integers(40, 45))};255;0;0;17;2.0"}])))
        if draw(st.booleans()):
            ops.append({"op": "ntick"})
    if draw(st.integers(0, 4)) == 0:
        # the asyncio gateway: stop() is a coroutine, and the transport may have a reconnect attempt in flight
        # (the link was lost and the device is unreachable), one that has ended, or none
        case["aio"] = {"link": draw(st.sampled_from(["none", "pending", "pending", "finished"]))}
    return case


def check_async_case(case, stats=None):
    """The same history through BaseAsyncGateway: lines, periodic saves (the scheduler's sleep is harness-driven)
    and controller calls, then `await gateway.stop()` in a drawn link state."""
    import asyncio

    from vf.checks.c15 import Asyncio

    version, ext = case["version"], case["ext"]
    with persist.Scratch() as tmp:
        path = os.path.join(tmp, f"net.{ext}")
        life = Asyncio(version, path)
        try:
            life.start()
            for op in case["ops"]:
                if op["op"] == "line":
                    if life.line(op["text"]).exc is not None:
                        if stats is not None:
                            stats.label("foreign:pump-crash")
                        return
                elif op["op"] == "tick":
                    res = life.attempt()
                    if isinstance(res, BaseException):
                        raise Violation("tick_raises", case, f"asyncio: periodic save raised {res!r}")
                elif op["op"] == "set":
                    try:
                        life.gw.set_child_value(op["n"], op["c"], op["vt"], op["value"])
                    except Exception:  # pylint: disable=broad-except
                        pass  # refused calls are judged by C05 / C08
            link = case["aio"]["link"]
            if link != "none":
                async def redial():
                    await asyncio.sleep(0 if link == "finished" else 3600)  # like the library's own: cancellation propagates

                life.gw.tasks.transport.connect_task = life.loop.create_task(redial())
                life._spin()  # pylint: disable=protected-access
            before = drive.typed(drive.projection(life.gw))
            try:
                life.loop.run_until_complete(life.gw.stop())
            except (Exception, asyncio.CancelledError) as exc:  # pylint: disable=broad-except
                raise Violation(f"stop_raises.{ext}.{type(exc).__name__}", case, f"asyncio, {ext}, reconnect attempt {link}: stop() raised {type(exc).__name__}: {exc} - the state held at that moment is not on disk") from exc
            after = drive.typed(drive.projection(persist.fresh_load(version, path).gw))
            if after != before:
                raise Violation(f"stop_loses_state.{ext}", case, f"asyncio, {ext}, reconnect attempt {link}: after stop() and restart the state differs: {first_diff(before, after)}")
        finally:
            life.close()
    if stats is not None:
        lines = [o for o in case["ops"] if o["op"] == "line"]
        stats.case(common.chash(case) if len(lines) >= 3 else None, {"version": version, "ext": ext, "aio": case["aio"], "n_ops": len(case["ops"])}, labels=("asyncio", f"reconnect-{case['aio']['link']}", ext))


def check_case(case, stats=None):
    if case.get("aio"):
        return check_async_case(case, stats)
    cwd = os.getcwd()
    try:
        return _check_case(case, stats)
    finally:
        os.chdir(cwd)


def _check_case(case, stats=None):
    version = case["version"]
    with persist.Scratch() as tmp, persist.TimerPatch() as fake:
        path = os.path.join(tmp, f"net.{case['ext']}")
        shape = case.get("shape", "abs")
        given = path
        if shape in ("bare", "dot"):
            os.chdir(tmp)
            given = ("" if shape == "bare" else "./") + f"net.{case['ext']}"
        elif shape == "sub":
            os.chdir(os.path.dirname(tmp))
            given = f"{os.path.basename(tmp)}/net.{case['ext']}"
        elif shape in ("dotdir", "bakdir"):
            # a directory whose own name has a dot / '.bak' in it (conf.d, ~/.config, a copied directory)
            sub = os.path.join(tmp, "conf.d" if shape == "dotdir" else "gateway.bak")
            os.makedirs(sub)
            path = given = os.path.join(sub, f"net.{case['ext']}")
        if case.get("previous"):
            life0 = persist.Lifetime(fake, version, given)
            apply_ops(life0.driver, [{"op": "line", "text": t} for t in case["previous"]])
            life0.stop()
        life = persist.Lifetime(fake, version, given, start=not case.get("early"))
        started = not case.get("early")
        other = persist.Lifetime(fake, version, os.path.join(tmp, f"other.{case['ext']}")) if case.get("neighbour") else None
        changes_since_tick = 0
        tick_between = False
        changes = 0
        prev = drive.typed(life.projection())
        for index, op in enumerate(case["ops"]):
            if not started and index >= case["early"]:
                life.start()
                started = True
                prev = drive.typed(life.projection())
            if op["op"] == "start_again":
                if started:
                    life.start()
                    prev = drive.typed(life.projection())
                continue
            if op["op"] in ("ntick", "nline"):
                if other is not None:
                    if op["op"] == "ntick":
                        other.tick()
                    else:
                        other.driver.line(op["text"])
                continue
            if op["op"] == "tick":
                res = life.tick()
                if isinstance(res, Exception):
                    raise Violation("tick_raises", case, f"periodic save raised {res!r}")
                if changes:
                    tick_between = True
                changes_since_tick = 0
                continue
            exc = apply_ops(life.driver, [op])
            if exc is not None:
                if stats is not None:
                    stats.label("foreign:pump-crash")
                return
            cur = drive.typed(life.projection())
            if cur != prev:
                changes += 1
                changes_since_tick += 1
                prev = cur
        if not started:
            life.start()
            prev = drive.typed(life.projection())
        before = prev
        try:
            life.stop()
        except Exception as exc:  # pylint: disable=broad-except
            raise Violation(f"stop_raises.{case['ext']}.{type(exc).__name__}", case, f"{case['ext']}: stop() raised {type(exc).__name__}: {exc} - the state held at that moment is not on disk") from exc
        if other is not None:
            other.stop()
        loaded = persist.fresh_load(version, path)
        after = drive.typed(drive.projection(loaded.gw))
        if after != before:
            raise Violation(
                f"stop_loses_state.{case['ext']}", case,
                f"{case['ext']}: after stop() and restart the state differs: {first_diff(before, after)}",
            )
    if stats is not None:
        nt = tick_between and changes_since_tick > 0
        stats.case(
            common.chash(case) if nt else None,
            {"version": version, "ext": case["ext"], "tail": case["tail"], "ops": case["ops"][-6:], "n_ops": len(case["ops"])},
            labels=[case["ext"], "tail-" + case["tail"]] + (["tick-between"] if tick_between else []) + (["neighbour-gateway"] if case.get("neighbour") else []) + ["path-" + case.get("shape", "abs")],
        )


def _shard(args):
    seed_value, n = args
    common.setup_path()
    stats = common.Stats()
    common.run_given(stats, cases(), lambda c: check_case(c, stats), n, seed_value, shrink=False)
    out = []
    for v in stats.violations:
        clause = v["clause"]

        def fails(ops, case=v["case"], clause=clause):
            try:
                check_case(dict(case, ops=ops))
            except Violation as vv:
                return vv.clause == clause
            return False

        ops = common.ddmin(v["case"]["ops"], fails)
        out.append({"clause": clause, "case": dict(v["case"], ops=ops), "detail": v["detail"]})
    stats.violations = out
    return stats


def main(tier):
    run = common.Run(PROP, tier, "exploration", RULE, assumptions=["the periodic timer is a harness-fired fake (threading.Timer inside mysensors.task replaced); real file system in a scratch directory"])
    for path in sorted(glob.glob(os.path.join(common.REPLAY_DIR, f"{PROP}-*.json"))):
        body = json.load(open(path, encoding="utf-8"))
        try:
            check_case(body["case"], run.stats)
        except Violation as v:
            run.stats.violation(v.clause, v.case, f"[regression {os.path.basename(path)}] {v.detail}")
    shards, n = (16, 120) if tier == "quick" else (16, 1500)
    jobs = [(common.shard_seed(common.seed(), i), n) for i in range(shards)]
    for stats in common.pool_map(_shard, jobs):
        run.stats.merge(stats)
    return run.finish()


def replay(path):
    common.setup_path()
    body = json.load(open(path, encoding="utf-8"))
    try:
        check_case(body["case"])
    except Violation as v:
        print(f"VIOLATION property={PROP} replay={path}")
        print(f"  clause={v.clause} detail={v.detail}")
        return 1
    print(f"{PROP} replay {path}: holds")
    return 0
