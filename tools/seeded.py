#!/venv/bin/python
"""Evaluate / keep a seeded regression produced by an independent sub-agent.

usage: tools/seeded.py eval <dir with patch.diff demo.py meta.json> [--checks C07,C08] [--tier quick] [--keep NAME]

Steps (all on a scratch copy of /repo's HEAD under /tmp, removed afterwards; /repo is never touched):
  1. demo.py on the unpatched copy must exit 0
  2. apply patch.diff; the repository's test suite must still pass; demo.py must now exit non-zero
  3. run the given checks (default: the check of meta.property) with VERIF_REPO=<copy>
With --keep the artefacts are stored under /verif/seeded/<NAME>/ with the results recorded in meta.json.
"""
import argparse
import json
import os
import shutil
import subprocess
import sys

HERE = os.path.dirname(os.path.dirname(os.path.abspath(__file__)))


def sh(cmd, cwd=None, env=None, timeout=3600):
    r = subprocess.run(cmd, cwd=cwd, env=env, capture_output=True, text=True, timeout=timeout)
    return r.returncode, (r.stdout + r.stderr)


def main():
    ap = argparse.ArgumentParser()
    ap.add_argument("cmd")
    ap.add_argument("dir")
    ap.add_argument("--checks")
    ap.add_argument("--tier", default="quick")
    ap.add_argument("--keep")
    ap.add_argument("--seeds", default="1")
    args = ap.parse_args()
    src = os.path.abspath(args.dir)
    meta = json.load(open(os.path.join(src, "meta.json"), encoding="utf-8"))
    prop = meta["property"]
    checks = args.checks.split(",") if args.checks else [prop]
    scratch = f"/tmp/vf_seedeval.{os.getpid()}"
    shutil.rmtree(scratch, ignore_errors=True)
    rc, out = sh(["git", "-C", "/repo", "worktree", "add", "--detach", scratch, "HEAD"])
    if rc:
        raise SystemExit(out)
    result = {"checks": {}}
    try:
        env = dict(os.environ, PYTHONPATH=scratch)
        shutil.copy(os.path.join(src, "demo.py"), os.path.join(scratch, "demo.py"))
        rc0, out0 = sh(["/venv/bin/python", "demo.py"], cwd=scratch, env=env, timeout=600)
        result["demo_on_original"] = {"exit": rc0, "tail": out0[-300:]}
        rc, out = sh(["git", "apply", os.path.join(src, "patch.diff")], cwd=scratch)
        if rc:
            raise SystemExit("patch does not apply: " + out)
        rcs, outs = sh(["/venv/bin/python", "-m", "pytest", "-q", "-p", "no:cacheprovider", "-n", "8", "tests"], cwd=scratch, env=env, timeout=1800)
        result["suite_with_patch"] = {"exit": rcs, "tail": outs.strip().splitlines()[-1] if outs.strip() else ""}
        rc1, out1 = sh(["/venv/bin/python", "demo.py"], cwd=scratch, env=env, timeout=600)
        result["demo_with_patch"] = {"exit": rc1, "tail": out1[-300:]}
        for chk in checks:
            for seed in args.seeds.split(","):
                cenv = dict(os.environ, VERIF_REPO=scratch, VERIF_SEED=seed, VERIF_EVIDENCE_DIR=os.path.join(scratch, "_ev"), VERIF_RUN_REPLAY_DIR=os.path.join(scratch, "_rp"))
                rcc, outc = sh([os.path.join(HERE, "check"), chk, "--tier", args.tier], cwd=HERE, env=cenv, timeout=7200)
                clauses = [l.strip()[:240] for l in outc.splitlines() if l.strip().startswith("clause=")]
                result["checks"][f"{chk}@seed{seed}"] = {"exit": rcc, "verdict": "caught" if rcc == 1 else ("green" if rcc == 0 else "harness-error"), "clauses": clauses[:4]}
                if rcc == 2:
                    result["checks"][f"{chk}@seed{seed}"]["tail"] = outc[-800:]
        valid = rc0 == 0 and rcs == 0 and rc1 != 0
        result["valid_seed"] = valid
        print(json.dumps(result, indent=1))
        if args.keep:
            dst = os.path.join(HERE, "seeded", args.keep)
            os.makedirs(dst, exist_ok=True)
            for name in ("patch.diff", "demo.py"):
                if os.path.abspath(src) != os.path.abspath(dst):
                    shutil.copy(os.path.join(src, name), os.path.join(dst, name))
            meta["confirmed"] = {
                "what_i_ran": "tools/seeded.py eval: demo.py on a scratch worktree of /repo HEAD (exit 0 expected), git apply patch.diff, full test suite (must pass), demo.py again (non-zero expected), then the listed checks with VERIF_REPO pointing at the patched worktree",
                **result,
            }
            with open(os.path.join(dst, "meta.json"), "w", encoding="utf-8") as fh:
                json.dump(meta, fh, indent=1)
            print("kept as", dst)
    finally:
        sh(["git", "-C", "/repo", "worktree", "remove", "--force", scratch])
        shutil.rmtree(scratch, ignore_errors=True)


if __name__ == "__main__":
    sys.exit(main())
