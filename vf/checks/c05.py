"""C05 - every reply is the prescribed one, well-formed and correctly addressed."""
from vf.histcheck import HistoryCheck

RULE = (
    "Hypothesis-generated, state-aware histories (<= 30 ops) over 5 versions x {sync, async}: requests for values "
    "that are reported / desired / absent, config/time/id requests, gateway-ready, traffic from unknown nodes and "
    "children, reboot replies, metric toggles and a generated clock (mysensors.handler.time replaced by a stub "
    "whose localtime() returns a drawn struct_time; gmtime() deliberately differs), controller calls with the value type as int / IntEnum / numeric str and values restricted "
    "to what the wire can carry. Per step the ordered list of strings handed to transport.send must equal the "
    "reference model's prescription (ack of a reply not compared); independently every emitted string must decode, "
    "be byte-identical to its canonical re-encoding, and be valid for the configured version under the reference "
    "validator. Non-trivial = a step with a non-empty prescribed reply reached after >= 3 accepted messages; "
    "distinct by hash of the history."
)


def nontrivial(case, sess):
    return (getattr(sess, "sent_before_restart", 0) + len(sess.driver.sent_log())) >= 1 and len([o for o in case["ops"] if o["op"] == "line"]) >= 4 and "aborted" not in sess.labels


KINDS = ["node", "child", "set", "set", "req", "req", "req", "battery", "sketch", "time", "time", "config", "config", "idreq", "idreq", "ready", "wake", "wake", "wake", "discover", "log", "misc", "cfgreq", "blkreq", "stream_misc"]

CHECK = HistoryCheck(
    "C05", {"reply", "ids", "reboot"}, RULE,
    dict(max_ops=30, frame_kinds=KINDS, wild_vt=True, op_weights=dict(clock=6, metric=5, set=12, fw=3, save=2)), nontrivial,
    quick=(16, 160), thorough=(16, 2500),
    assumptions=[
        "reference model vf/ref/model.py prescribes the reply; firmware replies are judged by C09/C10",
        "an id request must be answered when the largest known id is below 254 (the allocator's own contract); otherwise silence is accepted",
    ],
)
main = CHECK.main
replay = CHECK.replay
