"""C20 - connections are supervised and the callbacks are exact."""
import glob
import json
import os

from hypothesis import strategies as st

from vf import common
from vf.common import Violation

PROP = "C20"
RULE = (
    "Flavour {serial, TCP} x {asyncio: SelectorEventLoop subclass on a virtual clock with fake transports and "
    "scripted dial functions; threaded: the real ReaderThread / TCPTransport / connect threads over fake "
    "serial_for_url, socket, select and a simulated time module, events applied at quiescent points} x "
    "reconnect_timeout in {0.5, 2, 10} x Hypothesis-generated scripts of <= 12 events: dial outcomes (fail / "
    "timeout / ok), data, read error, write error (on a provoked reply, or armed for whatever write comes next - the keep-alive probe), abrupt close, orderly close by the peer (TCP), user "
    "disconnect(), stop(), advance(dt); for TCP a probe-answer latency pattern (each probe answered after "
    "l in [0, 0.9*RT], or never from time t0). Reference supervisor: one on_conn_made per established connection; "
    "one on_conn_lost per ended connection with the error object or None; after every loss the user did not "
    "request (before stop) a dial follows within RT and failed dials repeat exactly RT after the failure; after "
    "stop() no dial, write or callback (except the close callback of the connection stop() closed); a TCP link "
    "whose probes are answered within 0.9*RT is never dropped over 10*RT, a silent one is dropped and re-dialled "
    "within 3*RT (+ one check period slack) of the last answer and never before 2*RT of silence. Non-trivial = >= 1 unrequested loss followed by >= 1 failed and 1 successful dial, or a "
    "watchdog expiry, or a stop() during a retry wait; distinct by (flavour, event kinds, dial script)."
)

EPS = 1e-6
RTS = (0.5, 2.0, 10.0)
LINE = b"1;255;0;0;17;2.0\n"
CONFIG_REQ = b"1;255;3;0;6;0\n"


@st.composite
def scripts(draw, flavours=("async-serial", "async-tcp", "sync-serial", "sync-tcp")):
    flavour = draw(st.sampled_from(list(flavours)))
    tcp = flavour.endswith("tcp")
    rt = draw(st.sampled_from(RTS if flavour != "sync-tcp" else RTS[:2]))  # the threaded TCP reader polls every 20 ms of virtual time
    kind = draw(st.sampled_from(["events", "events", "events", "watchdog"])) if tcp else "events"
    dial_kinds = ["ok", "ok", "fail", "fail"] + (["timeout"] if tcp else [])
    dials = draw(st.lists(st.sampled_from(dial_kinds), max_size=6))
    if kind == "watchdog":
        n = draw(st.integers(0, 12))
        lat = [round(draw(st.floats(0, 0.9)) * rt, 3) for _ in range(n)]
        silent = draw(st.one_of(st.none(), st.floats(0, 6).map(lambda x: round(x * rt, 3))))
        # the link may come up late: a few refused dials first (each followed by the RT wait), so that it is
        # established long after the gateway object was built
        late = draw(st.sampled_from([0, 0, 1, 3, 4]))
        case = {"flavour": flavour, "rt": rt, "kind": "watchdog", "dials": ["fail"] * late + ["ok"], "latencies": lat, "silent_from": silent, "events": []}
        if draw(st.integers(0, 2)) == 0:
            # the gateway device presents itself as node 0 with a local sensor and takes part in smart sleep:
            # the keep-alive probe is addressed to node 0 - it must go out all the same
            case["node0_sleeps"] = True
        return case
    ev_kinds = ["data", "data", "read_error", "write_error", "abrupt_close", "advance", "advance", "advance_rt", "disconnect", "stop", "swap_callbacks"] + (["peer_eof", "peer_eof", "arm_write_error"] if tcp else [])
    events = []
    for _ in range(draw(st.integers(1, 10))):
        k = draw(st.sampled_from(ev_kinds))
        if k == "advance":
            events.append(["advance", round(draw(st.floats(0.05, 2.5)) * rt, 3)])
        elif k == "advance_rt":
            events.append(["advance", rt * draw(st.sampled_from([1, 2, 3]))])
        else:
            events.append([k])
        if k == "stop":
            events.append(["advance", rt * 3])
            break
    case = {"flavour": flavour, "rt": rt, "kind": "events", "dials": dials, "events": events}
    if events and events[-1][0] == "advance" and ["stop"] in events and draw(st.booleans()):
        case["save_fails"] = True  # persistence enabled and the final save inside stop() fails (disk full)
    return case


# -- running a script ---------------------------------------------------------------------------------


def make_world(case):
    flavour = case["flavour"]
    if flavour.startswith("async"):
        from vf import sim_async

        return sim_async.World("tcp" if flavour.endswith("tcp") else "serial", case["rt"], save_fails=bool(case.get("save_fails")))
    from vf import sim_thread

    return sim_thread.World("tcp" if flavour.endswith("tcp") else "serial", case["rt"], save_fails=bool(case.get("save_fails")))


def run_script(case):
    world = make_world(case)
    info = {"user_disconnect_at": None, "unrequested": [], "skipped": 0}
    try:
        world.dial_script = list(case["dials"])
        if case["kind"] == "watchdog":
            world.probe_latency = list(case["latencies"])
            world.silent_from = None if case["silent_from"] is None else world.clock.t + case["silent_from"]
        try:
            world.start()
        except common.HarnessError:
            raise
        except Exception as exc:  # pylint: disable=broad-except
            raise Violation(f"start_raises.{case['flavour']}.{type(exc).__name__}", case, f"[{case['flavour']}, RT={case['rt']}] gateway.start() raised {type(exc).__name__}: {exc} with the dial script {case['dials']}; timeline: {timeline(world)}") from exc
        if case["kind"] == "watchdog":
            if case.get("node0_sleeps"):
                world.advance((len(case["dials"]) - 1) * case["rt"] + 0.01)
                conn0 = world.live_conn()
                if conn0 is not None:
                    world.peer_data(conn0, b"0;255;0;0;18;2.2\n0;1;0;0;6;local\n0;255;3;0;32;500\n0;255;3;0;22;7\n")
                    world.settle()
            world.advance((10 + len(case["dials"])) * case["rt"])
        for ev in case["events"]:
            kind = ev[0]
            conn = world.live_conn()
            if kind == "advance":
                world.advance(ev[1])
            elif kind == "stop":
                if world.stopped_at is None:
                    world.stop()
                    world.settle()
            elif world.stopped_at is not None:
                info["skipped"] += 1
            elif kind == "swap_callbacks":
                world.swap_callbacks()  # the application installs other callbacks, whatever the link state
            elif kind == "disconnect":
                if info["user_disconnect_at"] is None:
                    world.user_disconnect()
                    info["user_disconnect_at"] = world.clock.t
                    world.settle()
            elif conn is None or info["user_disconnect_at"] is not None:
                info["skipped"] += 1
            elif kind == "data":
                world.peer_data(conn, LINE)
                world.settle()
            elif kind == "read_error":
                world.peer_abort(conn, OSError("read failed"))
                world.settle()
            elif kind == "abrupt_close":
                world.peer_abort(conn, ConnectionResetError("connection reset by peer"))
                world.settle()
            elif kind == "peer_eof":
                world.peer_eof(conn)
                world.settle()
            elif kind == "arm_write_error":
                # the NEXT write on this connection fails, whoever makes it: with nothing else going on that is the
                # keep-alive probe, written from wherever the library checks the connection
                world.fail_next_write(conn, OSError("write failed"))
            elif kind == "write_error":
                world.fail_next_write(conn, OSError("write failed"))
                world.peer_data(conn, CONFIG_REQ)  # provokes a reply, i.e. a write
                world.settle()
        world.settle()
        return world, info
    except BaseException:
        world.close()
        raise


def judge(case, world, info, stats=None):
    rt = case["rt"]
    flavour = case["flavour"]
    t_end = world.clock.t
    stop_t = world.stopped_at
    where = f"[{flavour}, RT={rt}]"

    def fail(clause, detail):
        raise Violation(f"{clause}.{flavour}", case, f"{where} {detail}; timeline: {timeline(world)}")

    if info["user_disconnect_at"] is None:
        # (what the retry loop does after a bare disconnect() is not pinned by the statement)
        for name, err in world.errors():
            fail("background_exception", f"{name} raised {err!r}")
    established = [c for c in world.conns]
    # A. one on_conn_made per established connection, at that instant
    if len(world.made) != len(established):
        fail("conn_made_count", f"{len(established)} connections were established, on_conn_made fired {len(world.made)} times")
    for m in world.made:
        if m["gw"] is not world.gw:
            fail("conn_made_arg", "on_conn_made was not called with the gateway")
    for kind, records in (("on_conn_made", world.made), ("on_conn_lost", world.lost)):
        for r in records:
            if r.get("epoch") != r.get("current"):
                fail("stale_callback", f"{kind} at t={rel(world, r['t'])} went to a callback the application had replaced (installed as #{r.get('epoch')}, current #{r.get('current')})")
    # B. one on_conn_lost per ended connection, with the right error argument
    ended = [e for e in world.ended if world.loss_delivered(e["cid"])]
    if len(world.lost) != len(ended):
        fail("conn_lost_count", f"{len(ended)} connections ended ({[(e['cid'], e['why']) for e in ended]}), on_conn_lost fired {len(world.lost)} times")
    for e, l in zip(ended, world.lost):
        if l["gw"] is not world.gw:
            fail("conn_lost_arg", "on_conn_lost was not called with the gateway")
        # README: "If connection was lost without error, eg when disconnecting, the error argument will
        # be None"; an error reported by the device must be passed on. Other endings are not pinned.
        if e["why"] == "closed-by-user" and l["exc"] is not None:
            fail("conn_lost_error_arg", f"connection {e['cid']} was closed on the user's request but on_conn_lost got {l['exc']!r}")
        if e["why"] == "peer-error" and l["exc"] is None:
            fail("conn_lost_error_arg", f"connection {e['cid']} ended with {e['exc']!r} ({e['why']}) but on_conn_lost got None")
    # C. every unrequested loss is followed by a dial; failed dials repeat at RT
    barrier = min(x for x in (stop_t, info["user_disconnect_at"], float("inf")) if x is not None)
    for e in world.ended:
        if e["why"] in ("closed-by-user",) or e["t"] >= barrier:
            continue
        horizon = e["t"] + rt + EPS
        if min(t_end, barrier) < horizon:
            continue  # the script ended / the user intervened before the deadline
        nxt = [d for d in world.dials if d["t"] >= e["t"] - EPS]
        if not nxt or nxt[0]["t"] > horizon:
            if flavour.startswith("async") and e["why"] == "peer-eof" and e["exc"] is None:
                # known finding F15: orderly close by the peer, asyncio flavour -> never re-dialled
                info["known_F15"] = info.get("known_F15", 0) + 1
                continue
            fail("no_reconnect_after_loss", f"connection {e['cid']} was lost at t={rel(world, e['t'])} ({e['why']}, exc={e['exc']!r}) and no dial followed within RT")
    for i, d in enumerate(world.dials):
        if d["outcome"] == "ok" or d["end"] is None or d["end"] >= barrier:
            continue
        due = d["end"] + rt
        if min(t_end, barrier) < due + EPS:
            continue
        later = [x for x in world.dials[i + 1:]]
        if not later:
            fail("retry_stops", f"dial #{i} failed at t={rel(world, d['end'])} and was never repeated")
        if abs(later[0]["t"] - due) > 1e-3:
            fail("retry_interval", f"dial #{i} failed at t={rel(world, d['end'])}; the next attempt started at t={rel(world, later[0]['t'])}, expected {rel(world, due)} (RT={rt})")
    # D. nothing after stop()
    if stop_t is not None:
        after = world.after_stop()
        if after["dials"]:
            fail("dial_after_stop", f"{after['dials']} dial(s) after stop()")
        if after["writes"]:
            fail("write_after_stop", f"writes after stop(): {after['writes']}")
        if after["made"]:
            fail("conn_made_after_stop", "on_conn_made fired after stop()")
        if after["lost"] > after["allowed_lost"]:
            fail("conn_lost_after_stop", f"on_conn_lost fired {after['lost']} times after stop() (allowed {after['allowed_lost']})")
    # E. watchdog
    if case["kind"] == "watchdog":
        silent = case["silent_from"]
        first = world.conns[0] if world.conns else None
        if first is None:
            fail("never_connected", "the first dial was scripted ok but no connection exists")
        end0 = [e for e in world.ended if e["cid"] == 0]
        if silent is None or silent > 10 * rt:
            if end0 and all(p["latency"] is not None and p["latency"] <= 0.9 * rt + EPS for p in world.probes if p["cid"] == 0):
                fail("healthy_link_dropped", f"every probe was answered within 0.9*RT yet the link was closed at t={rel(world, end0[0]['t'])} ({end0[0]['why']})")
        else:
            # "about twice": the link must be dropped once 2*RT have passed without an answer, observed
            # at the next periodic check (period about RT) -> at most ~3*RT after the last answer.
            answers = [p["t"] + p["latency"] for p in world.probes if p["cid"] == 0 and p["latency"] is not None]
            up = [e[0] for e in world.log if e[1] == "established" and str(e[2]) == "0"]
            last_answer = max([up[0] if up else world.t0] + answers)  # silence is counted from the moment the link came up
            deadline = last_answer + 3 * rt + max(0.1, 0.25 * rt)
            if t_end >= deadline + EPS:
                if not end0 or end0[0]["t"] > deadline + EPS:
                    fail("silent_link_not_dropped", f"gateway silent after t={rel(world, last_answer)}; link still up at t={rel(world, deadline)} (more than 3*RT later)")
                redial = [d for d in world.dials[1:] if d["t"] <= deadline + EPS]
                if not redial:
                    fail("silent_link_not_redialled", f"gateway silent after t={rel(world, last_answer)}; closed at {rel(world, end0[0]['t'])} but not re-dialled by {rel(world, deadline)}")
            if end0 and end0[0]["t"] < last_answer + 2 * rt - EPS and end0[0]["why"] == "closed-by-gateway":
                fail("link_dropped_too_early", f"last answer at t={rel(world, last_answer)}, link closed by the gateway already at t={rel(world, end0[0]['t'])} (< 2*RT of silence)")
    if stats is not None:
        unrequested = [e for e in world.ended if e["why"] != "closed-by-user" and e["t"] < barrier]
        failed = [d for d in world.dials if d["outcome"] != "ok"]
        recovered = any(e["t"] <= d["t"] for e in unrequested for d in world.dials if d["outcome"] == "ok" and d is not world.dials[0]) and bool(failed)
        watchdog = any(e["why"] == "closed-by-gateway" for e in world.ended)
        stop_in_wait = stop_t is not None and any(d["outcome"] != "ok" and d["end"] is not None and d["end"] <= stop_t < d["end"] + rt for d in world.dials)
        nt = recovered or watchdog or stop_in_wait
        kinds = [e[0] for e in case["events"]]
        if info.get("known_F15"):
            stats.known("F15", info["known_F15"])
        stats.case(
            common.chash([flavour, kinds, case["dials"], case["rt"], case.get("latencies"), case.get("silent_from")]) if nt else None,
            {"flavour": flavour, "rt": rt, "dials": case["dials"], "events": case["events"], "timeline": timeline(world)[:14]},
            labels=(flavour, case["kind"]) + (("known-F15",) if info.get("known_F15") else ()) + (("recovered",) if recovered else ()) + (("watchdog-expiry",) if watchdog else ()) + (("stop-during-wait",) if stop_in_wait else ()),
        )


def rel(world, t):
    return round(t - world.t0, 3)


def timeline(world):
    out = []
    for entry in world.log[-40:]:
        out.append((rel(world, entry[0]),) + tuple(str(x)[:40] for x in entry[1:]))
    return out


def check_case(case, stats=None):
    world, info = run_script(case)
    try:
        judge(case, world, info, stats)
    finally:
        world.close()


def _shard(args):
    seed_value, n, flavours = args
    common.setup_path()
    stats = common.Stats()
    common.run_given(stats, scripts(flavours), lambda c: check_case(c, stats), n, seed_value, shrink=True)
    return stats


FLAVOURS = ("async-serial", "async-tcp", "sync-serial", "sync-tcp")


def main(tier):
    run = common.Run(PROP, tier, "exploration", RULE,
                     assumptions=["fake devices raise the documented exception classes at the documented calls (pyserial / socket / asyncio semantics)",
                                  "asyncio: loop.run_in_executor replaced by an inline executor so that virtual time never runs ahead of a worker thread",
                                  "'about twice the timeout': dropped no earlier than 2*RT and no later than 3*RT + max(0.1, 0.25*RT) after the last answer (2*RT threshold observed at the next periodic check)"])
    for path in sorted(glob.glob(os.path.join(common.REPLAY_DIR, f"{PROP}-*.json"))):
        body = json.load(open(path, encoding="utf-8"))
        try:
            check_case(body["case"], run.stats)
        except Violation as v:
            run.stats.violation(v.clause, v.case, f"[regression {os.path.basename(path)}] {v.detail}")
    shards, n = (16, 60) if tier == "quick" else (16, 1200)
    jobs = [(common.shard_seed(common.seed(), i), n, (FLAVOURS[i % len(FLAVOURS)],)) for i in range(shards)]
    for stats in common.pool_map(_shard, jobs):
        run.stats.merge(stats)
    return run.finish()


def replay(path):
    common.setup_path()
    body = json.load(open(path, encoding="utf-8"))
    try:
        st_ = common.Stats()
        check_case(body["case"], st_)
        if st_.known_hits.get("F15"):
            print(f"KNOWN-FINDING: property={PROP} F15 reproduced by {path}")
    except Violation as v:
        print(f"VIOLATION property={PROP} replay={path}")
        print(f"  clause={v.clause} detail={v.detail}")
        return 1
    print(f"{PROP} replay {path}: holds")
    return 0
