#!/bin/sh
# Offline setup: make sure hypothesis is importable from /venv and atheris from /verif/.deps.
set -u
cd "$(dirname "$0")"
WH=/opt/veriftools/wheels
/venv/bin/python -c "import hypothesis" 2>/dev/null || \
  /venv/bin/pip install --no-index --find-links "$WH" hypothesis || exit 1
if ! PYTHONPATH=.deps /venv/bin/python -c "import atheris" 2>/dev/null; then
  /venv/bin/pip install --no-index --find-links "$WH" --target .deps atheris \
    || echo "WARN: atheris not installable; coverage-guided tier will be skipped"
fi
mkdir -p evidence replays
exit 0
