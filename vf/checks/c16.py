"""C16 - sending races safely with connection loss and shutdown."""
import glob
import json
import os

from hypothesis import strategies as st

from vf import common, sched
from vf.common import Violation

PROP = "C16"
RULE = (
    "Real SyncTransport + BaseMySensorsProtocol over a fake connection object (records writes; write on a closed "
    "connection raises OSError as pyserial does). Thread bodies: T0 = transport.send(cmd); T1 in "
    "{connection_lost(OSError), connection_lost(None), transport.disconnect(), lost-then-connection_made(new)}; "
    "also two senders, k producers calling tasks.add_job against the real _poll_queue loop, the real poll loop draining two queued commands while the connection is lost and re-made, and the real "
    "TCPTransport.write over a local socket pair racing with a loss / a disconnect. The bodies run "
    "as real threads under sys.settrace; at every source line of mysensors/transport.py and mysensors/task.py the "
    "thread parks and the harness scheduler picks who runs next. ALL schedules with <= 2 pre-emptions (3 in the "
    "thorough tier; one less for the three-thread producer scenario) are enumerated by stateless DFS, plus Hypothesis-drawn unbounded schedules, "
    "plus sends on a real loopback TCP connection that the peer has reset (RST) or closed (FIN), "
    "plus a live-pump phase (the real poll thread started by tasks.start(); while it sits in a slow write other threads queue commands and lines whose handling queues further commands from inside the poll thread; exact queue order expected), "
    "plus Hypothesis-drawn backlogs (up to 4 producers queue up to several thousand commands in drawn bursts while the pump is busy, then the real poll loop drains). Oracle per "
    "schedule: no exception leaves send / the poll loop; the writes recorded are [] or [cmd] (never twice, never "
    "partial); every write happened on a connection open at that instant; with several producers the multiset "
    "sent equals the multiset queued and queue order is preserved. Non-trivial = schedule with >= 1 pre-emption "
    "that moves the other thread inside send between its first and last line; distinct by (scenario, schedule)."
)

CMD = "1;1;1;0;2;1\n"
SCENARIOS = ("lost_error", "lost_clean", "disconnect", "lost_then_made", "two_senders", "producers", "tcp_lost_error", "tcp_disconnect", "pump_lost_made")


class FakeConnection:
    """pyserial ReaderThread look-alike: write/close/.serial; write on closed raises OSError."""

    def __init__(self, name, log):
        self.name, self.log = name, log
        self.is_open = True
        self.serial = self

    def write(self, data):
        if not self.is_open:
            raise OSError(f"write on closed connection {self.name}")
        self.log.append((self.name, bytes(data), self.is_open))

    def close(self):
        self.is_open = False

    def __repr__(self):
        return f"<conn {self.name} {'open' if self.is_open else 'closed'}>"


def files():
    return (os.path.join("mysensors", "transport.py"), os.path.join("mysensors", "task.py"), os.path.join("mysensors", "gateway_tcp.py"))


def make_scenario(name):
    """Returns make_bodies() for sched.explore: fresh real objects per run."""
    import mysensors
    from mysensors import transport as mt

    def make():
        log = []
        events = []
        tr = mt.SyncTransport(None, lambda t: events.append("reconnect"))
        # the reconnect thread spawned by conn_lost_callback is not part of the explored bodies
        tr.connect = lambda: events.append("reconnect")
        tr.protocol.conn_lost_callback = tr.connect
        gw = mysensors.BaseSyncGateway(tr, protocol_version="2.2")
        tr.gateway = gw
        tr.protocol.gateway = gw
        conn = FakeConnection("A", log)
        tr.protocol.transport = conn
        ctx = {"log": log, "events": events, "transport": tr, "conn": conn, "gw": gw, "name": name, "sent_cmds": [CMD]}
        proto = tr.protocol

        def late(run_holder=ctx):
            return run_holder["run"]

        class LazyLock:
            """CoopLock bound to the Run that is created after make()."""

            def __init__(self):
                self.owner = None

            def __enter__(self):
                late().wait_until(lambda: self.owner is None)
                self.owner = 1
                return self

            def __exit__(self, *exc):
                self.owner = None
                return False

        tr._lock = LazyLock()  # pylint: disable=protected-access
        if hasattr(proto, "_reconnect_lock"):
            # a further real lock of the protocol object would block the cooperative scheduler as well
            proto._reconnect_lock = LazyLock()  # pylint: disable=protected-access

        def t_send(cmd=CMD):
            tr.send(cmd)

        if name == "lost_error":
            bodies = [t_send, lambda: proto.connection_lost(OSError("device unplugged"))]
        elif name == "lost_clean":
            bodies = [t_send, lambda: proto.connection_lost(None)]
        elif name == "disconnect":
            bodies = [t_send, tr.disconnect]
        elif name == "lost_then_made":
            new = FakeConnection("B", log)
            ctx["conn_b"] = new

            def lost_made():
                proto.connection_lost(OSError("glitch"))
                proto.connection_made(new)

            bodies = [t_send, lost_made]
        elif name in ("tcp_lost_error", "tcp_disconnect"):
            # the real TCPTransport.write over a real (local) socket pair; the reader thread is not started
            import socket

            from mysensors.gateway_tcp import TCPTransport

            ours, peer = socket.socketpair()
            peer.setblocking(False)
            tcp = TCPTransport(ours, lambda: proto, lambda: None)
            tcp.join = lambda timeout=None: None  # never started: nothing to wait for
            tcp._lock = LazyLock()  # pylint: disable=protected-access  (a real lock would block inside C code)
            proto.transport = tcp
            ctx["peer"], ctx["ours"] = peer, ours
            if name == "tcp_lost_error":
                bodies = [t_send, lambda: proto.connection_lost(OSError("connection reset"))]
            else:
                bodies = [t_send, tr.disconnect]
        elif name == "two_senders":
            other = "2;2;1;0;2;0\n"
            ctx["sent_cmds"] = [CMD, other]
            bodies = [t_send, lambda: tr.send(other)]
        elif name == "pump_lost_made":
            # the real poll loop drains two queued commands while the connection is lost with an error and a
            # new one is made: what reaches a connection is a subsequence of the queue, in queue order
            import mysensors.task as task

            jobs = [CMD, "2;2;1;0;2;0\n"]
            ctx["sent_cmds"] = jobs
            for j in jobs:
                gw.tasks.add_job(str, j)
            new = FakeConnection("B", log)
            ctx["conn_b"] = new
            state = {"done": 0}

            def lost_made():
                proto.connection_lost(OSError("glitch"))
                proto.connection_made(new)
                state["done"] = 1

            class FakeTime:
                @staticmethod
                def sleep(_secs):
                    run = late()
                    if state["done"] and not gw.tasks.queue:
                        gw.tasks._stop_event.set()  # pylint: disable=protected-access
                        return
                    run.wait_until(lambda: bool(gw.tasks.queue) or state["done"])

            ctx["restore"] = (task, task.time)
            task.time = FakeTime
            bodies = [gw.tasks._poll_queue, lost_made]  # pylint: disable=protected-access
        elif name == "producers":
            import mysensors.task as task

            jobs_a = [f"1;1;1;0;2;{i}\n" for i in range(2)]
            jobs_b = [f"2;2;1;0;2;{i}\n" for i in range(2)]
            ctx["sent_cmds"] = jobs_a + jobs_b
            state = {"done": 0, "order": []}
            ctx["state"] = state

            def producer(jobs):
                def body():
                    for j in jobs:
                        gw.tasks.add_job(str, j)
                        state["order"].append(j)
                    state["done"] += 1
                return body

            class FakeTime:
                @staticmethod
                def sleep(_secs):
                    run = late()
                    if state["done"] == 2 and not gw.tasks.queue:
                        gw.tasks._stop_event.set()  # pylint: disable=protected-access
                        return
                    run.wait_until(lambda: bool(gw.tasks.queue) or state["done"] == 2)

            ctx["restore"] = (task, task.time)
            task.time = FakeTime
            bodies = [gw.tasks._poll_queue, producer(jobs_a), producer(jobs_b)]  # pylint: disable=protected-access
        else:
            raise ValueError(name)
        return bodies, ctx

    return make


def judge(run, ctx, stats=None, origin="dfs"):
    name = ctx["name"]
    if "restore" in ctx:
        mod, saved = ctx["restore"]
        mod.time = saved
    chosen = [d[1] for d in run.decisions]
    case = {"scenario": name, "schedule": chosen}
    if getattr(run, "deadlock_error", None) is not None:
        raise Violation(f"deadlock.{name}", case, f"[{name}] {run.deadlock_error}")
    for idx, exc in sorted(run.errors.items()):
        raise Violation(
            f"raises.{name}.{type(exc).__name__}", case,
            f"[{name}] thread {idx} raised {type(exc).__name__}: {exc} under schedule {chosen}",
        )
    log = ctx["log"]
    if "peer" in ctx:
        try:
            data = ctx["peer"].recv(4096)
        except (BlockingIOError, OSError):
            data = b""
        finally:
            ctx["peer"].close()
            ctx["ours"].close()
        if data:
            log.append(("tcp", data, True))
    for conn_name, data, was_open in log:
        if not was_open:
            raise Violation(f"write_on_closed.{name}", case, f"[{name}] a write reached closed connection {conn_name}")
    wrote = [data.decode() for _, data, _ in log]
    cmds = ctx["sent_cmds"]
    if name == "pump_lost_made":
        it = iter(cmds)
        if len(set(wrote)) != len(wrote) or not all(w in it for w in wrote):
            raise Violation("pump_order_or_duplicate", case, f"[{name}] queued {cmds}; reached a connection: {wrote} (must be a sub-sequence of the queue, each command at most once)")
    elif name == "producers":
        if sorted(wrote) != sorted(cmds):
            raise Violation("producers_lost_or_duplicated", case, f"[{name}] queued {sorted(cmds)}, sent {wrote}")
        if wrote != ctx["state"]["order"]:
            # order in which add_job returned need not be the queue order under pre-emption
            # inside add_job; check per-producer order (the queue is FIFO)
            for prefix_ in ("1;1", "2;2"):
                sub = [w for w in wrote if w.startswith(prefix_)]
                if sub != sorted(sub):
                    raise Violation("producers_order", case, f"[{name}] per-producer order broken: {wrote}")
    else:
        for cmd in cmds:
            n = wrote.count(cmd)
            if n > 1:
                raise Violation(f"written_twice.{name}", case, f"[{name}] {cmd!r} was written {n} times")
        extra = [w for w in wrote if w not in cmds]
        if extra:
            raise Violation(f"partial_or_foreign_write.{name}", case, f"[{name}] unexpected writes {extra}")
        if name == "two_senders" and sorted(wrote) != sorted(cmds):
            raise Violation("two_senders_lost", case, f"[{name}] connection stayed open but only {wrote} were written")
    if stats is not None:
        pre = sched.preemptions(run.decisions)
        # did the other thread run between two steps of thread 0 (the sender)?
        zero = [i for i, c in enumerate(chosen) if c == 0]
        inside = bool(zero) and any(c != 0 for c in chosen[zero[0] : zero[-1]])
        stats.case(
            f"{name}:{chosen}" if (pre >= 1 and inside) else None,
            {"scenario": name, "schedule": chosen, "writes": wrote} if len(chosen) % 13 == 0 else None,
            labels=(name, origin, f"preemptions{min(pre, 3)}", "wrote" if wrote else "dropped"),
        )


def explore_scenario(args):
    name, bound = args
    common.setup_path()
    stats = common.Stats()
    found = {}

    budget = {"after_first": 0}

    def on_run(run, ctx):
        try:
            judge(run, ctx, stats)
        except Violation as v:
            if v.clause not in found or len(v.case["schedule"]) < len(found[v.clause].case["schedule"]):
                found[v.clause] = v
            stats.label("violating-schedules:" + v.clause)
        if found:
            # keep looking for other clauses / shorter schedules for a while, not for ever
            budget["after_first"] += 1
            if budget["after_first"] > 300:
                stats.label("exploration-cut-after-violation")
                return "stop"
        return None

    runs = sched.explore(make_scenario(name), files(), bound, on_run)
    stats.label(f"runs:{name}", runs)
    for v in found.values():
        stats.violation(v.clause, v.case, v.detail)
    return stats


def random_schedules(args):
    seed_value, n = args
    common.setup_path()
    stats = common.Stats()

    def body(case):
        run, ctx = sched.run_schedule(make_scenario(case["scenario"]), files(), case["schedule"])
        judge(run, ctx, stats, "random")

    strategy = st.fixed_dictionaries({"scenario": st.sampled_from(SCENARIOS), "schedule": st.lists(st.integers(0, 2), max_size=60)})
    common.run_given(stats, strategy, body, n, seed_value, shrink=True)
    return stats


# -- backlog: many commands queued while the pump is busy ---------------------------------------------
# No scheduler needed: the producers' add_job calls arrive in a drawn order while the pump sits in a slow write
# (it simply does not run), then the real _poll_queue drains. Every queued command is sent exactly once, in
# queue order - however long the queue got.

backlog_cases = st.fixed_dictionaries({
    "scenario": st.just("backlog"),
    "repeat": st.sampled_from([False, False, True]),  # producers queue the SAME command again and again (switch on, on, on ...)
    "bursts": st.lists(st.tuples(st.integers(0, 3), st.one_of(st.integers(1, 8), st.sampled_from([64, 255, 256, 257, 300, 1000, 1024, 2049]))), min_size=1, max_size=8),
})


def backlog(case, stats=None):
    import mysensors
    import mysensors.task as task
    from mysensors import transport as mt

    log = []
    tr = mt.SyncTransport(None, lambda t: None)
    tr.connect = lambda: None
    gw = mysensors.BaseSyncGateway(tr, protocol_version="2.2")
    tr.gateway = gw
    tr.protocol.gateway = gw
    tr.protocol.transport = FakeConnection("A", log)
    order, counts = [], {}
    for producer, length in case["bursts"]:
        for _ in range(length):
            counts[producer] = counts.get(producer, 0) + 1
            cmd = f"{producer + 1};{producer + 1};1;0;24;{1 if case.get('repeat') else counts[producer]}\n"
            gw.tasks.add_job(str, cmd)
            order.append(cmd)

    class FakeTime:  # pylint: disable=too-few-public-methods
        @staticmethod
        def sleep(_secs):
            if not gw.tasks.queue:
                gw.tasks._stop_event.set()  # pylint: disable=protected-access

    saved = task.time
    task.time = FakeTime
    try:
        gw.tasks._poll_queue()  # pylint: disable=protected-access
    except Exception as exc:  # pylint: disable=broad-except
        raise Violation(f"raises.backlog.{type(exc).__name__}", case, f"[backlog] the poll loop raised {type(exc).__name__}: {exc}") from exc
    finally:
        task.time = saved
    wrote = [data.decode() for _, data, _ in log]
    if wrote != order:
        missing = [c for c in order if c not in set(wrote)] or order[len(wrote):]
        dup = max(0, len(wrote) - len(order))
        raise Violation(
            "backlog_lost_or_reordered", case,
            f"[backlog] {len(order)} commands queued by {len(counts)} producers while the pump was busy; {len(wrote)} written, {len(missing)} never sent (first: {missing[:1]}), {dup} duplicates"
            + ("" if missing or dup else "; order differs from queue order"),
        )
    if stats is not None:
        stats.case(f"backlog:{case['bursts']}" if len(counts) >= 2 and len(order) > 256 else None,
                   {"scenario": "backlog", "bursts": case["bursts"], "queued": len(order)} if len(order) % 7 == 0 else None,
                   labels=("backlog", "queued>256" if len(order) > 256 else "queued<=256"))


def backlog_shard(args):
    seed_value, n = args
    common.setup_path()
    stats = common.Stats()
    common.run_given(stats, backlog_cases, lambda c: backlog(c, stats), n, seed_value, shrink=True)
    return stats


# -- live pump: the REAL poll thread (tasks.start()), commands queued from other threads and from the pump itself ---
# While the pump sits in a slow write, the main thread queues commands and inbound lines; some of the lines make
# the library (presentation request for an unknown node) or the user's event callback queue a further command
# from INSIDE the poll thread. Everything is sent exactly once in queue order - a command queued by the pump
# thread goes to the tail like any other.

live_cases = st.fixed_dictionaries({
    "scenario": st.just("live_pump"),
    "items": st.lists(st.sampled_from(["cmd", "cmd", "unknown", "callback"]), min_size=2, max_size=7),
})


class SlowConnection(FakeConnection):
    """The first write blocks until the harness releases it."""

    def __init__(self, name, log):
        import threading

        super().__init__(name, log)
        self.in_write = threading.Event()
        self.release = threading.Event()

    def write(self, data):
        if not self.in_write.is_set():
            self.in_write.set()
            self.release.wait(10)
        super().write(data)


def live_pump(case, stats=None):
    import time as real_time
    from collections import deque

    import mysensors
    from mysensors import transport as mt

    log = []
    tr = mt.SyncTransport(None, lambda t: None)
    tr.connect = lambda: None
    counter = {"cb": 0}

    def callback(msg):
        counter["cb"] += 1
        gw.tasks.add_job(str, f"9;9;1;0;24;from-callback-{counter['cb']}\n")

    gw = mysensors.BaseSyncGateway(tr, protocol_version="2.2", event_callback=None)
    tr.gateway = gw
    tr.protocol.gateway = gw
    conn = SlowConnection("A", log)
    tr.protocol.transport = conn
    for text in ("1;255;0;0;17;2.2", "1;0;0;0;3;light"):
        gw.logic(text)
    gw.tasks.queue.clear()
    gw.event_callback = callback
    first = "7;7;1;0;2;1\n"
    gw.tasks.add_job(str, first)
    gw.tasks.start()
    try:
        if not conn.in_write.wait(10):
            raise common.HarnessError("the poll thread never reached the connection")
        queue, expected = deque(), [first]
        for i, item in enumerate(case["items"]):
            if item == "cmd":
                cmd = f"2;{i};1;0;2;0\n"
                gw.tasks.add_job(str, cmd)
                queue.append(("cmd", cmd))
            elif item == "unknown":
                nid = 20 + i
                gw.tasks.add_job(gw.logic, f"{nid};0;1;0;2;1")
                queue.append(("defer", f"{nid};255;3;0;19;\n"))
            else:
                gw.tasks.add_job(gw.logic, f"1;0;1;0;2;{i % 2}")
                queue.append(("defer", None))
        n_cb = 0
        while queue:
            kind, cmd = queue.popleft()
            if kind == "cmd":
                expected.append(cmd)
            else:
                if cmd is None:
                    n_cb += 1
                    cmd = f"9;9;1;0;24;from-callback-{n_cb}\n"
                queue.append(("cmd", cmd))
        conn.release.set()
        deadline = real_time.time() + 10
        while real_time.time() < deadline and (len(log) < len(expected) or gw.tasks.queue):
            real_time.sleep(0.01)
        real_time.sleep(0.05)
    finally:
        conn.release.set()
        gw.tasks._stop_event.set()  # pylint: disable=protected-access
    wrote = [data.decode() for _, data, _ in log]
    if wrote != expected:
        raise Violation("live_pump_order", case, f"[live_pump] items {case['items']}: written {wrote}, queue order is {expected}")
    if stats is not None:
        nt = any(i != "cmd" for i in case["items"]) and "cmd" in case["items"]
        stats.case(f"live:{case['items']}" if nt else None, {"scenario": "live_pump", "items": case["items"], "written": len(wrote)}, labels=("live-pump",))


def live_shard(args):
    seed_value, n = args
    common.setup_path()
    stats = common.Stats()
    common.run_given(stats, live_cases, lambda c: live_pump(c, stats), n, seed_value, shrink=True)
    return stats


# -- a real TCP connection that the peer resets / closes while commands are being sent ------------------------------
# Fake connections never fail inside close(); a real socket does. The pump-side send on a real TCPTransport over a
# loopback TCP connection whose peer has sent RST (or FIN) must still either write or drop - never raise.

tcp_reset_cases = st.fixed_dictionaries({
    "scenario": st.just("tcp_reset"),
    "how": st.sampled_from(["rst", "rst", "fin", "rst_with_unread_data"]),
    "sends": st.integers(1, 4),
})


def tcp_reset(case, stats=None):
    import socket
    import struct
    import time as real_time

    import mysensors
    import mysensors.gateway_tcp as gt
    from mysensors import transport as mt

    events = []
    tr = mt.SyncTransport(None, lambda t: None)
    tr.connect = lambda: events.append("reconnect")
    tr.protocol.conn_lost_callback = tr.connect
    gw = mysensors.BaseSyncGateway(tr, protocol_version="2.2")
    tr.gateway = gw
    tr.protocol.gateway = gw
    try:
        srv = socket.socket()
        srv.bind(("127.0.0.1", 0))
        srv.listen(1)
        ours = socket.create_connection(srv.getsockname(), 5)
        peer, _ = srv.accept()
        srv.close()
    except OSError:
        # no loopback interface in this sandbox: the phase cannot run (explored less, never a violation)
        if stats is not None:
            stats.label("tcp-reset-unavailable:no-loopback")
        return
    tcp = gt.TCPTransport(ours, lambda: tr.protocol, lambda: None)
    tcp.join = lambda timeout=None: None  # the reader thread is parked (never started): nothing to wait for
    tr.protocol.transport = tcp
    failed = None
    try:
        if case["how"] == "rst_with_unread_data":
            ours.send(b"unread\n")
            real_time.sleep(0.02)
        if case["how"].startswith("rst"):
            peer.setsockopt(socket.SOL_SOCKET, socket.SO_LINGER, struct.pack("ii", 1, 0))
        peer.close()
        real_time.sleep(0.03)
        for i in range(case["sends"]):
            try:
                tr.send(f"1;1;1;0;2;{i % 2}\n")
            except Exception as exc:  # pylint: disable=broad-except
                failed = exc
                break
            real_time.sleep(0.01)
    finally:
        for sock in (ours, peer):
            try:
                sock.close()
            except OSError:
                pass
    if failed is not None:
        raise Violation(f"raises.tcp_reset.{type(failed).__name__}", case, f"[tcp_reset, {case['how']}] send on a connection the peer has {'reset' if case['how'].startswith('rst') else 'closed'} raised {type(failed).__name__}: {failed} into the caller (the pump)")
    if events.count("reconnect") > 1:
        raise Violation("reconnect_twice.tcp_reset", case, f"[tcp_reset, {case['how']}] {events.count('reconnect')} reconnects were requested for one lost connection")
    if stats is not None:
        stats.case(f"tcp_reset:{case['how']}:{case['sends']}", {"scenario": "tcp_reset", "how": case["how"], "sends": case["sends"], "reconnects": events.count("reconnect")}, labels=("tcp-reset", case["how"]))


def tcp_reset_shard(args):
    seed_value, n = args
    common.setup_path()
    stats = common.Stats()
    common.run_given(stats, tcp_reset_cases, lambda c: tcp_reset(c, stats), n, seed_value, shrink=True)
    return stats


def check_case(case, stats=None):
    if case.get("scenario") == "tcp_reset":
        return tcp_reset(case, stats)
    if case.get("scenario") == "backlog":
        return backlog(case, stats)
    if case.get("scenario") == "live_pump":
        return live_pump(case, stats)
    run, ctx = sched.run_schedule(make_scenario(case["scenario"]), files(), case["schedule"])
    judge(run, ctx, stats, "replay")


def main(tier):
    run_ = common.Run(PROP, tier, "exploration", RULE, exhaustive=True,
                      assumptions=["exhaustive = all schedules up to the pre-emption bound (2 quick / 3 thorough) per scenario; granularity = source lines of mysensors/transport.py and mysensors/task.py; C-level atomicity of deque.append/popleft trusted",
                                   "the send lock is replaced by a lock the scheduler understands; the reconnect thread spawned on loss is recorded, not explored"])
    for path in sorted(glob.glob(os.path.join(common.REPLAY_DIR, f"{PROP}-*.json"))):
        body = json.load(open(path, encoding="utf-8"))
        try:
            check_case(body["case"], run_.stats)
        except Violation as v:
            run_.stats.violation(v.clause, v.case, f"[regression {os.path.basename(path)}] {v.detail}")
    bound = 2 if tier == "quick" else 3
    # the three-thread producer scenario has far more schedules per pre-emption: one less there
    jobs = [(name, bound - 1 if name in ("producers", "pump_lost_made") else bound) for name in SCENARIOS]
    for stats in common.pool_map(explore_scenario, jobs):
        run_.stats.merge(stats)
    n = 60 if tier == "quick" else 1000
    for stats in common.pool_map(random_schedules, [(common.shard_seed(common.seed(), i), n) for i in range(8)]):
        run_.stats.merge(stats)
    n = 40 if tier == "quick" else 600
    for stats in common.pool_map(backlog_shard, [(common.shard_seed(common.seed(), 50 + i), n) for i in range(8)]):
        run_.stats.merge(stats)
    n = 6 if tier == "quick" else 60
    for stats in common.pool_map(tcp_reset_shard, [(common.shard_seed(common.seed(), 90 + i), n) for i in range(4)]):
        run_.stats.merge(stats)
    n = 12 if tier == "quick" else 150
    for stats in common.pool_map(live_shard, [(common.shard_seed(common.seed(), 70 + i), n) for i in range(8)]):
        run_.stats.merge(stats)
    run_.extra["preemption_bound"] = bound
    return run_.finish()


def replay(path):
    common.setup_path()
    body = json.load(open(path, encoding="utf-8"))
    try:
        check_case(body["case"])
    except Violation as v:
        print(f"VIOLATION property={PROP} replay={path}")
        print(f"  clause={v.clause} detail={v.detail}")
        return 1
    print(f"{PROP} replay {path}: holds")
    return 0
