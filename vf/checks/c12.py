"""C12 - saving replaces the persistence file atomically."""
import glob
import json
import os

from hypothesis import strategies as st

from vf import common, drive, faultfs, gen, persist
from vf.common import Violation
from vf.checks.c11 import apply_ops, first_diff

PROP = "C12"
RULE = (
    "For Hypothesis-generated state pairs (old state S0 on disk, new state S1 in memory) x {json, pickle} x prior "
    "on-disk configuration {no file; good file; good + stale .bak; good + stale truncated .tmp; good + both; good + a complete, LONGER stale .tmp; good file reached through a symbolic link; good file named by its bare name relative to the working directory}: the operation "
    "trace of one complete save is recorded through the file interposer (open, every write, flush, fsync, close, "
    "both renames, remove) and EVERY operation index k is enumerated x {crash before op k, crash after op k, op k "
    "fails with OSError} x durability {all written data survives; unsynced data lost -> synced prefix / cut in "
    "the unsynced tail / unsynced tail zero-filled}. After the fault a fresh gateway loads the directory: no "
    "exception, state in {S0, S1} (for 'no file': empty or S1); then one more complete save of S1 + load = S1. "
    "For a failing operation the dirty flag must still be set unless the new file is fully in place; after a failing rename / remove the NEXT save is enumerated as well (process dies before each of its operations). "
    "Non-trivial = fault strictly inside the sequence with S0 != S1 and S0 non-empty; distinct by "
    "(state hash, format, prior, k, mode, durability variant)."
)

PRIORS = ("none", "good", "good+bak", "good+tmp", "good+bak+tmp", "good+bigtmp", "good+symlink", "good+relname")
MODES = ("crash_before", "crash_after", "fail")


@st.composite
def cases(draw):
    def lines(pool, n_nodes):
        out = []
        for nid in draw(st.lists(st.sampled_from(pool), min_size=1, max_size=n_nodes, unique=True)):
            out.append(f"{nid};255;0;0;17;{draw(st.sampled_from(['1.4', '2.0', '2.1']))}")
            for cid in draw(st.lists(st.integers(0, 2), min_size=1, max_size=2, unique=True)):
                out.append(f"{nid};{cid};0;0;{draw(st.integers(0, 25))};{draw(gen.nice_text)}")
                out.append(f"{nid};{cid};1;0;{draw(st.sampled_from([0, 1, 24]))};{draw(gen.nice_text)}")
        return out

    # the state on disk: a small network - or, now and then, a complete save of an EMPTY network (what a
    # fresh gateway writes first); the stale backup then holds something older that must not come back
    old = lines([1, 2, 3], 2) if draw(st.integers(0, 3)) else []
    extra = lines([1, 2, 3, 4, 5], 2) + [f"1;255;3;0;11;{draw(gen.nice_text)}", f"1;255;3;0;0;{draw(st.integers(1, 100))}"]
    return {
        "version": draw(st.sampled_from(common.VERSIONS)),
        "ext": draw(st.sampled_from(["json", "pickle"])),
        "old": old,
        "extra": extra,
        "stale": lines([21, 22], 1),
    }


class Setup:
    """Everything that is constant for one (case, prior): file images and projections."""

    def __init__(self, case, prior, tmp):
        self.case, self.prior, self.tmp = case, prior, tmp
        version, ext = case["version"], case["ext"]
        self.version, self.ext = version, ext
        self.path = os.path.join(tmp, f"net.{ext}")
        self.bak = self.path + ".bak"
        self.tmpfile = os.path.join(tmp, f"net.tmp.{ext}")
        with persist.TimerPatch() as fake:
            old_bytes, self.s0 = _make(fake, version, self.path, case["old"])
            stale_bytes, _ = _make(fake, version, self.path, case["stale"])
        self.files = {}
        if "symlink" in prior:
            # the configured persistence file is a symbolic link to the real file in another directory
            # (save_sensors resolves it with realpath; the backup lives next to the link)
            self.files[os.path.join("store", os.path.basename(self.path))] = old_bytes
            self.files[os.path.basename(self.path)] = ("link", os.path.join("store", os.path.basename(self.path)))
        elif prior != "none":
            self.files[os.path.basename(self.path)] = old_bytes
        else:
            self.s0 = drive.typed({})
        if "bak" in prior:
            self.files[os.path.basename(self.bak)] = stale_bytes
        if "bigtmp" in prior:
            # a COMPLETE temp file left by a failed save of a larger network (longer than what is saved now)
            with persist.TimerPatch() as fake:
                big_bytes, _ = _make(fake, version, self.path, case["old"] + case["extra"] + case["stale"] + [f"{n};255;0;0;17;2.0" for n in range(30, 40)])
            self.files[os.path.basename(self.tmpfile)] = big_bytes
        elif "tmp" in prior:
            self.files[os.path.basename(self.tmpfile)] = stale_bytes[: len(stale_bytes) // 2]
        if "relname" in prior:
            self.path = os.path.basename(self.path)  # the working directory is `tmp` while this prior is enumerated

    def new_gateway(self):
        """In-memory gateway holding S1 (old + extra), persistence pointing at the file."""
        # The in-memory network is never modified by a save, so one object is reused for
        # every fault point of this (case, prior); loads always use fresh objects.
        if getattr(self, "_drv", None) is None:
            drv = drive.Driver(self.version, "sync", persistence=True, persistence_file=self.path)
            lines = (self.case["old"] if self.prior != "none" else []) + self.case["extra"]
            apply_ops(drv, [{"op": "line", "text": t} for t in lines])
            self._drv = drv
        self._drv.gw.tasks.persistence.need_save = True
        return self._drv


def _make(fake, version, path, lines):
    life = persist.Lifetime(fake, version, path)
    apply_ops(life.driver, [{"op": "line", "text": t} for t in lines])
    proj = drive.typed(life.projection())
    life.stop()
    with open(path, "rb") as fh:
        data = fh.read()
    persist.restore(os.path.dirname(path), {})
    return data, proj


def trace_of_clean_save(setup):
    persist.restore(setup.tmp, setup.files)
    drv = setup.new_gateway()
    s1 = drive.typed(drive.projection(drv.gw))
    with faultfs.Layer() as layer:
        try:
            drv.gw.tasks.persistence.save_sensors()
        except Exception as exc:  # pylint: disable=broad-except
            raise Violation(f"clean_save_raises.{type(exc).__name__}", dict(setup.case, prior=setup.prior), f"[{setup.ext}, prior={setup.prior}] a fault-free save raised {type(exc).__name__}: {exc}") from exc
    loaded = persist.fresh_load(setup.version, setup.path)
    if drive.typed(drive.projection(loaded.gw)) != s1:
        raise Violation("clean_save_wrong", dict(setup.case, prior=setup.prior), "a fault-free save does not load back to the saved state")
    return layer.trace, s1


def one_fault(setup, s1, k, mode, stats, n_ops):
    case = dict(setup.case, prior=setup.prior, k=k, mode=mode)
    persist.restore(setup.tmp, setup.files)
    drv = setup.new_gateway()
    pers = drv.gw.tasks.persistence
    # the kind of failure rotates with the operation: I/O error, permission denied, disk full, read-only file system
    plan = faultfs.FaultPlan(k, mode, errno_=(5, 13, 28, 30)[(k + len(setup.case["extra"])) % 4])
    raised = None
    with faultfs.Layer(plan) as layer:
        try:
            pers.save_sensors()
        except faultfs.Crash:
            raised = "crash"
        except OSError as exc:
            raised = exc
            if mode != "fail" or "injected failure" not in str(exc):
                raise Violation(f"save_raises_{type(exc).__name__}", case, f"op {k} {mode}: save raised {exc!r} although no operation was made to fail") from exc
        except Exception as exc:  # pylint: disable=broad-except
            raise Violation(f"save_raises_{type(exc).__name__}", case, f"op {k} {mode}: save raised {exc!r} (only the injected OSError may propagate)") from exc
    if not plan.fired:
        return 0
    opname = layer.trace[k][0] + ":" + layer.trace[k][1]
    where = f"[{setup.ext}, prior={setup.prior}, op {k}/{n_ops} {opname}, {mode}]"
    snapshot = persist.listing(setup.tmp)
    allowed = [setup.s0, s1]
    evaluations = 0
    if mode == "fail":
        variants = [("kept", {})]
    else:
        variants = [("kept", {})] + [(f"lost#{i}", ov) for i, ov in enumerate(faultfs.survivors(layer, "lost")) if ov]
    for vname, overrides in variants:
        persist.restore(setup.tmp, snapshot)
        for full, data in overrides.items():
            with open(full, "wb") as fh:
                fh.write(data)
        evaluations += 1
        try:
            loaded = persist.fresh_load(setup.version, setup.path)
        except Exception as exc:  # pylint: disable=broad-except
            raise Violation(f"load_after_fault_raises.{setup.ext}", dict(case, variant=vname), f"{where} {vname}: start-up load raised {type(exc).__name__}: {exc}") from exc
        got = drive.typed(drive.projection(loaded.gw))
        if got not in allowed:
            which = "empty" if not got else "partial/mixed"
            raise Violation(
                f"state_lost_after_fault.{setup.ext}", dict(case, variant=vname),
                f"{where} {vname}: loaded state is {which}, neither the previous nor the new one (files: {sorted(persist.listing(setup.tmp))}); vs old: {first_diff(setup.s0, got)}",
            )
        # one more complete save of S1 (a new process for crashes, the same object for failures)
        if mode == "fail" and vname == "kept":
            fully_in_place = got == s1 and not raised
            if raised and not pers.need_save and got != s1:
                raise Violation(f"dirty_flag_lost.{setup.ext}", case, f"{where}: the save failed with {raised!r} but the state is no longer marked unsaved and the file holds the old state")
            del fully_in_place
            # the same process tries again later: no flag is forced here - whether the library still knows that
            # the state is unsaved is exactly what "the next save succeeds" depends on
            saver = drv
        else:
            saver = setup.new_gateway()
        try:
            saver.gw.tasks.persistence.save_sensors()
        except Exception as exc:  # pylint: disable=broad-except
            raise Violation(f"next_save_raises.{setup.ext}", dict(case, variant=vname), f"{where} {vname}: the next save raised {type(exc).__name__}: {exc}") from exc
        again = persist.fresh_load(setup.version, setup.path)
        if drive.typed(drive.projection(again.gw)) != s1:
            raise Violation(f"next_save_wrong.{setup.ext}", dict(case, variant=vname), f"{where} {vname}: after the next complete save the file does not load to the new state")
        if stats is not None:
            inside = 0 < k < n_ops - 1
            nt = inside and setup.s0 != s1 and setup.prior != "none"
            stats.case(
                f"{common.chash([setup.case['old'], setup.case['extra'], setup.ext])}:{setup.prior}:{k}:{mode}:{vname}" if nt else None,
                {"ext": setup.ext, "prior": setup.prior, "op": f"{k}/{n_ops} {opname}", "mode": mode, "variant": vname, "loaded": "new" if got == s1 else "old"} if (k * 7 + len(vname)) % 41 == 0 else None,
                labels=(setup.ext, mode, "lost" if vname != "kept" else "kept", "op-" + layer.trace[k][0]),
            )
    if mode == "fail" and layer.trace[k][0] in ("rename", "remove") and raised is not None:
        evaluations += second_save_faults(setup, s1, snapshot, drv, where, case, stats)
    return evaluations


def second_save_faults(setup, s1, snapshot, drv, where, case, stats):
    """A rename / remove of the save failed and the process lives on: the directory it left behind is the prior
    configuration of the NEXT save (e.g. no main file, backup, complete temp file). That save is a save like any
    other: the process may die before each of its operations, and start-up must still find a complete state."""
    pers = drv.gw.tasks.persistence
    persist.restore(setup.tmp, snapshot)
    pers.need_save = True
    with faultfs.Layer() as probe:
        try:
            pers.save_sensors()
        except Exception as exc:  # pylint: disable=broad-except
            raise Violation(f"next_save_raises.{setup.ext}", case, f"{where}: the save after the failed one raised {type(exc).__name__}: {exc}") from exc
    count = 0
    for k2 in range(len(probe.trace)):
        persist.restore(setup.tmp, snapshot)
        pers.need_save = True
        plan = faultfs.FaultPlan(k2, "crash_before")
        with faultfs.Layer(plan) as layer2:
            try:
                pers.save_sensors()
            except faultfs.Crash:
                pass
            except Exception as exc:  # pylint: disable=broad-except
                raise Violation(f"next_save_raises.{setup.ext}", dict(case, k2=k2), f"{where}, then crash before op {k2}: save raised {exc!r}") from exc
        if not plan.fired:
            continue
        count += 1
        op2 = layer2.trace[k2][0] + ":" + layer2.trace[k2][1]
        try:
            loaded = persist.fresh_load(setup.version, setup.path)
        except Exception as exc:  # pylint: disable=broad-except
            raise Violation(f"load_after_fault_raises.{setup.ext}", dict(case, k2=k2), f"{where}, then the process died before op {k2} {op2} of the next save: start-up load raised {type(exc).__name__}: {exc}") from exc
        got = drive.typed(drive.projection(loaded.gw))
        if got not in (setup.s0, s1):
            raise Violation(
                f"state_lost_after_second_fault.{setup.ext}", dict(case, k2=k2),
                f"{where}, then the process died before op {k2} {op2} of the next save: loaded state is {'empty' if not got else 'partial/mixed'} (files: {sorted(persist.listing(setup.tmp))})",
            )
        if stats is not None:
            stats.case(f"{common.chash([setup.case['old'], setup.case['extra'], setup.ext])}:{setup.prior}:{case['k']}:2nd:{k2}", None, labels=(setup.ext, "second-save-fault"))
    return count


def check_case(case, stats=None, priors=PRIORS, only=None, collect=None, part=(0, 1)):
    cwd = os.getcwd()
    with persist.Scratch() as tmp, _Back(cwd):
        for prior in priors:
            # "relname": the application names the file relative to its working directory (the README does)
            os.chdir(tmp if "relname" in prior else cwd)
            try:
                setup = Setup(case, prior, tmp)
            except Exception as exc:  # pylint: disable=broad-except
                v = Violation(f"clean_save_raises.{type(exc).__name__}", dict(case, prior=prior), f"fault-free start/save/stop cycles used to prepare the files raised {type(exc).__name__}: {exc}")
                if collect is None:
                    raise v from exc
                collect.append(v)
                continue
            try:
                trace, s1 = trace_of_clean_save(setup)
            except Violation as v:
                if collect is None:
                    raise
                collect.append(v)
                continue
            n_ops = len(trace)
            for k in range(n_ops):
                if k % part[1] != part[0]:
                    continue
                for mode in MODES:
                    if only is not None and (only.get("k"), only.get("mode"), only.get("prior")) != (k, mode, prior):
                        continue
                    try:
                        one_fault(setup, s1, k, mode, stats, n_ops)
                    except Violation as v:
                        if collect is None:
                            raise
                        if len(collect) < 25:
                            collect.append(v)


class _Back:
    def __init__(self, cwd):
        self.cwd = cwd

    def __enter__(self):
        return self

    def __exit__(self, *exc):
        os.chdir(self.cwd)
        return False


PARTS = 4


def _one(args):
    case, prior, j = args
    common.setup_path()
    stats = common.Stats()
    found = []
    check_case(case, stats, priors=(prior,), collect=found, part=(j, PARTS if case["ext"] == "json" else 1))
    for v in found:
        stats.violation(v.clause, v.case, v.detail)
    return stats


def draw_cases(n, seed_value):
    out = []
    common.run_given(common.Stats(), cases(), out.append, n, seed_value, shrink=False)
    if out and not any(not c["old"] for c in out):
        out.append(dict(out[0], old=[]))
    full = [c for c in out if c["old"]]
    for ext in ("json", "pickle"):
        # a non-empty previous state per format (losing it is what a missing fsync shows as)
        if full and not any(c["ext"] == ext for c in full):
            out.append(dict(full[0], ext=ext))
    exts = {c["ext"] for c in out}
    for ext in ("json", "pickle"):
        if ext not in exts and out:
            out.append(dict(out[-1], ext=ext))
    return out


def main(tier):
    run = common.Run(PROP, tier, "fault_enumeration", RULE, exhaustive=True,
                     assumptions=["exhaustive = every file operation of the save as fault point, per generated state pair; state pairs are generated",
                                  "renames/removes are ordered and durable; only file DATA not followed by fsync can be lost (prefix / cut / zero-filled tail)",
                                  "a crash is a BaseException raised from the interposer; the directory is then handed to a fresh gateway"])
    for path in sorted(glob.glob(os.path.join(common.REPLAY_DIR, f"{PROP}-*.json"))):
        body = json.load(open(path, encoding="utf-8"))
        c = body["case"]
        try:
            check_case(c, run.stats, priors=(c["prior"],), only=c)
        except Violation as v:
            run.stats.violation(v.clause, v.case, f"[regression {os.path.basename(path)}] {v.detail}")
    n = 3 if tier == "quick" else 100
    todo = draw_cases(n, common.shard_seed(common.seed(), 0))
    jobs = [(c, prior, j) for c in todo for prior in PRIORS for j in range(PARTS if c["ext"] == "json" else 1)]
    for stats in common.pool_map(_one, jobs):
        run.stats.merge(stats)
    run.extra["state_pairs"] = len(todo)
    return run.finish()


def replay(path):
    common.setup_path()
    body = json.load(open(path, encoding="utf-8"))
    c = body["case"]
    try:
        check_case(c, priors=(c["prior"],), only=c)
    except Violation as v:
        print(f"VIOLATION property={PROP} replay={path}")
        print(f"  clause={v.clause} detail={v.detail}")
        return 1
    print(f"{PROP} replay {path}: holds")
    return 0
