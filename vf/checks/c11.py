"""C11 - persistence round trip is exact in both formats."""
import glob
import json
import os

from hypothesis import strategies as st

from vf import common, drive, gen, lockstep, persist
from vf.common import Violation

PROP = "C11"
RULE = (
    "States reached by Hypothesis-generated histories (C04 generator with payload classes forced: astral "
    "characters, quotes, backslashes, NBSP, digit-only, 'null', 10^4 characters; node ids 0..255; nodes known "
    "only through id assignment; children without values) with transient state added (desired values, withheld "
    "replies, reboot flags, OTA sessions), for 5 versions. Each state is saved by stop() and loaded by a fresh "
    "gateway through start_persistence(), as .json and as .pickle: the typed projection (int keys at all three "
    "levels, int/str/None attribute types) and the iteration order of nodes / children / values must equal the pre-save ones, both formats must agree, and the "
    "loaded gateway must carry no transient state and emit nothing on its first pump. Non-trivial = >= 2 nodes, "
    ">= 1 child with >= 2 values, >= 1 non-ASCII payload, >= 1 transient item; distinct by state hash."
)

RICH = ['"', "\\", 'a"b\\c', "null", "true", "12345", "007", "\xa0x", "😀🎉", "\U0001F600", "{\"a\": 1}", "[1]", "line\tTab", "é" * 40, "x" * 10000, "-0", "1e5", "NaN"]


@st.composite
def cases(draw):
    hist = draw(gen.histories(max_ops=25, min_ops=3, flavours=("sync",), cb_raise=False,
                              op_weights=dict(near=2, raw=1, set=14, fw=5, clock=0, metric=0, cb_raise=0)))
    ops = list(hist["ops"])
    # force rich payloads into a few accepted free-text frames
    n_rich = draw(st.integers(0, 4))
    for _ in range(n_rich):
        nid = draw(st.sampled_from(gen.NODE_POOL))
        kind = draw(st.sampled_from(["desc", "sketch", "value"]))
        text = draw(st.sampled_from(RICH))
        if kind == "desc":
            ops.append({"op": "line", "text": f"{nid};{draw(st.sampled_from(gen.CHILD_POOL))};0;0;23;{text}"})
        elif kind == "sketch":
            ops.append({"op": "line", "text": f"{nid};255;3;0;{draw(st.sampled_from([11, 12]))};{text}"})
        else:
            ops.append({"op": "line", "text": f"{nid};{draw(st.sampled_from(gen.CHILD_POOL))};1;0;{draw(st.sampled_from([0, 24, 25, 28]))};{text}"})
    # what happens AFTER the load: late-bound to the nodes / children the loaded gateway knows
    after = []
    for _ in range(draw(st.integers(0, 9))):
        after.append({
            "kind": draw(st.sampled_from(["wake", "wake", "wake", "set", "set", "req", "value", "reboot"])),
            "ni": draw(st.integers(0, 5)), "ci": draw(st.integers(0, 3)),
            "vt": draw(st.sampled_from([2, 24, 0])), "value": draw(st.sampled_from(["1", "0", "x", "21.5"])),
        })
    # a controller that uses the public child API (Home Assistant validates every child in its event callback)
    return {"version": hist["version"], "ops": ops, "after": after, "validate": draw(st.booleans())}


def apply_ops(driver, ops):
    for op in ops:
        kind = op["op"]
        if kind == "line":
            step = driver.line(op["text"])
            if step.exc is not None:
                return step.exc
        elif kind == "set":
            vt = str(op["vt"]) if op.get("vt_kind") == "str" else op["vt"]
            driver.set_value(op["n"], op["c"], vt, op["value"])
        elif kind == "fw":
            image = lockstep.image_bytes(op["image"]) if op.get("image") else None
            driver.update_fw(op["nids"], op["type"], op["ver"], image=image)
    return None


def after_load(driver, version, ops):
    """Run the post-load continuation on a loaded gateway; returns what it emitted per op. The ops are bound
    to the nodes that have children (in id order), so that wake-ups really start smart sleep."""
    from vf.ref import tables as T

    gw = driver.gw
    nodes = sorted(n for n, s in gw.sensors.items() if s.children and 0 < n < 255)
    out = []
    wake = T.wake_sub(version)
    for op in ops:
        if not nodes:
            break
        nid = nodes[op["ni"] % len(nodes)]
        kids = sorted(gw.sensors[nid].children)
        cid = kids[op["ci"] % len(kids)]
        vt, value = op["vt"], op["value"]
        if vt in (2, 0) and value == "x":
            value = "1"
        kind = op["kind"]
        if kind == "wake":
            if wake is None:
                continue
            step = driver.line(f"{nid};255;3;0;{wake};5")
        elif kind == "set":
            step = driver.set_value(nid, cid, vt, value)
        elif kind == "req":
            step = driver.line(f"{nid};{cid};2;0;{vt};")
        elif kind == "value":
            step = driver.line(f"{nid};{cid};1;0;{vt};{value}")
        else:
            step = driver.update_fw([nid], 1, 1, image=b"\x01" * 20)
        out.append([kind, nid, cid, list(step.sent), repr(step.exc), type(step.call_exc).__name__])
    return out


def use_child_api(gw, version):
    """Read-only public API calls a controller makes on the tree: they must not change what can be saved."""
    import voluptuous as vol

    for sensor in list(gw.sensors.values()):
        for child in list(sensor.children.values()):
            for call in (lambda c=child: c.validate(version), lambda c=child: c.get_schema(version), lambda c=child: repr(c)):
                try:
                    call()
                except (vol.Invalid, KeyError, ValueError):
                    pass
        repr(sensor)


def iteration_order(gw):
    return [[nid, [[cid, list(child.values)] for cid, child in sensor.children.items()]] for nid, sensor in gw.sensors.items()]


def check_case(case, stats=None):
    version = case["version"]
    results = {}
    behaviour = {}
    with persist.Scratch() as tmp, persist.TimerPatch() as fake:
        for ext in ("json", "pickle"):
            path = os.path.join(tmp, f"net.{ext}")
            life = persist.Lifetime(fake, version, path)
            exc = apply_ops(life.driver, case["ops"])
            if exc is not None:
                if stats is not None:
                    stats.label("foreign:pump-crash")
                return
            if case.get("validate"):
                use_child_api(life.gw, version)
            before = drive.typed(life.projection())
            order_before = iteration_order(life.gw)
            trans = drive.transient(life.gw)
            try:
                life.stop()
            except Exception as exc:  # pylint: disable=broad-except
                raise Violation(f"save_raises.{ext}.{type(exc).__name__}", case, f"{ext}: stop() could not save a reachable state: {type(exc).__name__}: {exc}") from exc
            try:
                loaded = persist.Lifetime(fake, version, path)
            except Exception as exc:  # pylint: disable=broad-except
                raise Violation(f"load_raises.{ext}.{type(exc).__name__}", case, f"{ext}: loading what stop() saved raised {type(exc).__name__}: {exc}") from exc
            after = drive.typed(loaded.projection())
            if after != before:
                raise Violation(
                    f"roundtrip.{ext}", case,
                    f"{ext}: state after load differs from state before save: {first_diff(before, after)}",
                )
            # dicts are ordered and the order is observable (iteration over nodes / children / values decides
            # the order of the commands of a wake-up burst): the restored tree iterates like the saved one
            if iteration_order(loaded.gw) != order_before:
                raise Violation(f"roundtrip.order.{ext}", case, f"{ext}: nodes / children / values iterate in a different order after the load: {order_before} -> {iteration_order(loaded.gw)}")
            # transient state must not be resurrected
            for nid, s in loaded.gw.sensors.items():
                if s.new_state or s.queue or s.reboot or s.is_smart_sleep_node:
                    raise Violation(f"transient_resurrected.{ext}", case, f"{ext}: node {nid} loaded with new_state={s.new_state} queue={list(s.queue)} reboot={s.reboot}")
            ota = loaded.gw.tasks.ota
            if ota.requested or ota.unstarted or ota.started:
                raise Violation(f"transient_resurrected.{ext}", case, f"{ext}: OTA session resurrected")
            mark = len(loaded.driver.sent_log())
            step = drive.Step()
            loaded.driver._pump(step)  # pylint: disable=protected-access
            if step.exc is not None or len(loaded.driver.sent_log()) != mark:
                raise Violation(f"first_pump_emits.{ext}", case, f"{ext}: first pump after load emitted {loaded.driver.sent_log()[mark:]} / raised {step.exc!r}")
            results[ext] = after
            # life goes on after the load: both formats must have restored the same *behaviour*, and what the
            # loaded gateway accumulates must again not survive the next load
            emitted = after_load(loaded.driver, version, case.get("after", []))
            behaviour[ext] = {"emitted": emitted, "state": drive.typed(loaded.projection()), "transient": drive.jsonable(drive.transient(loaded.gw)["nodes"])}
            try:
                loaded.stop()
                third = persist.Lifetime(fake, version, path)
            except Exception as exc:  # pylint: disable=broad-except
                raise Violation(f"second_cycle_raises.{ext}.{type(exc).__name__}", case, f"{ext}: stop()/load of a gateway that itself started from a file raised {type(exc).__name__}: {exc}") from exc
            for nid, s in third.gw.sensors.items():
                if s.new_state or s.queue or s.reboot or s.is_smart_sleep_node:
                    raise Violation(f"transient_resurrected.second_load.{ext}", case, f"{ext}: node {nid} loaded (second cycle) with new_state={s.new_state} queue={list(s.queue)} reboot={s.reboot}")
            if drive.typed(third.projection()) != behaviour[ext]["state"]:
                raise Violation(f"roundtrip.second_cycle.{ext}", case, f"{ext}: second save/load cycle changed the state: {first_diff(behaviour[ext]['state'], drive.typed(third.projection()))}")
            third.stop()
        if behaviour["json"] != behaviour["pickle"]:
            for key in ("emitted", "state", "transient"):
                if behaviour["json"][key] != behaviour["pickle"][key]:
                    raise Violation(f"formats_disagree.after_load.{key}", case, f"the same traffic after a load from json vs pickle: {key} differ: {str(behaviour['json'][key])[:400]} vs {str(behaviour['pickle'][key])[:400]}")
        if results["json"] != results["pickle"]:
            raise Violation("formats_disagree", case, f"json and pickle restore different states: {first_diff(results['json'], results['pickle'])}")
    if stats is not None:
        proj = before
        nodes = len(proj)
        rich_child = any(len(c[("str", "values")]) >= 2 for n in proj.values() for c in n[("str", "children")].values())
        non_ascii = not json.dumps(drive.jsonable(untyped(proj)), ensure_ascii=False).isascii()
        has_transient = any(v["queue"] or v["reboot"] or any(x for x in v["desired"].values()) for v in trans["nodes"].values()) or bool(trans["ota"]["requested"] or trans["ota"]["unstarted"] or trans["ota"]["started"])
        nt = nodes >= 2 and rich_child and non_ascii and has_transient
        labels = [f"nodes>={min(nodes, 3)}"] + (["transient"] if has_transient else []) + (["non-ascii"] if non_ascii else []) + (["child>=2values"] if rich_child else [])
        stats.case(common.chash(drive.jsonable(untyped(proj))) if nt else None, {"version": version, "state": drive.jsonable(untyped(proj)) if len(str(proj)) < 3000 else "(large)"}, labels=labels)


def untyped(obj):
    if isinstance(obj, dict):
        return {(k[1] if isinstance(k, tuple) else k): untyped(v) for k, v in obj.items()}
    if isinstance(obj, tuple) and len(obj) == 2 and isinstance(obj[0], str):
        return obj[1]
    if isinstance(obj, list):
        return [untyped(v) for v in obj]
    return obj


def first_diff(a, b, path=""):
    if type(a) is not type(b):
        return f"{path}: {a!r} vs {b!r}"
    if isinstance(a, dict):
        for k in a.keys() | b.keys():
            if k not in a or k not in b:
                return f"{path}/{k}: only on one side"
            d = first_diff(a[k], b[k], f"{path}/{k}")
            if d:
                return d
        return None
    if a != b:
        return f"{path}: {str(a)[:120]!r} vs {str(b)[:120]!r}"
    return None


def _shard(args):
    seed_value, n = args
    common.setup_path()
    stats = common.Stats()
    common.run_given(stats, cases(), lambda c: check_case(c, stats), n, seed_value, shrink=False)
    out = []
    for v in stats.violations:
        clause = v["clause"]

        def fails(ops, case=v["case"], clause=clause):
            try:
                check_case(dict(case, ops=ops))
            except Violation as vv:
                return vv.clause == clause
            return False

        ops = common.ddmin(v["case"]["ops"], fails)
        out.append({"clause": clause, "case": dict(v["case"], ops=ops), "detail": v["detail"]})
    stats.violations = out
    return stats


def main(tier):
    run = common.Run(PROP, tier, "exploration", RULE, assumptions=["states are those reachable through accepted messages and controller calls; the fake periodic timer never fires during a case"])
    for path in sorted(glob.glob(os.path.join(common.REPLAY_DIR, f"{PROP}-*.json"))):
        body = json.load(open(path, encoding="utf-8"))
        try:
            check_case(body["case"], run.stats)
        except Violation as v:
            run.stats.violation(v.clause, v.case, f"[regression {os.path.basename(path)}] {v.detail}")
    shards, n = (16, 90) if tier == "quick" else (16, 1500)
    jobs = [(common.shard_seed(common.seed(), i), n) for i in range(shards)]
    for stats in common.pool_map(_shard, jobs):
        run.stats.merge(stats)
    return run.finish()


def replay(path):
    common.setup_path()
    body = json.load(open(path, encoding="utf-8"))
    try:
        check_case(body["case"])
    except Violation as v:
        print(f"VIOLATION property={PROP} replay={path}")
        print(f"  clause={v.clause} detail={v.detail}")
        return 1
    print(f"{PROP} replay {path}: holds")
    return 0
