"""Simulated world for the asyncio gateways (C20): virtual-time event loop, scripted
dial outcomes, fake asyncio transports, a simulated gateway device that answers
version probes with a scripted latency."""
import asyncio
import selectors


class Clock:
    def __init__(self):
        self.t = 1000.0

    def time(self):
        return self.t


class VSelector(selectors.BaseSelector):
    """Never blocks: a positive timeout just advances the virtual clock."""

    def __init__(self, clock):
        self._clock = clock
        self._keys = {}

    def register(self, fileobj, events, data=None):
        key = selectors.SelectorKey(fileobj, fileobj if isinstance(fileobj, int) else fileobj.fileno(), events, data)
        self._keys[fileobj] = key
        return key

    def unregister(self, fileobj):
        return self._keys.pop(fileobj)

    def modify(self, fileobj, events, data=None):
        self.unregister(fileobj)
        return self.register(fileobj, events, data)

    def select(self, timeout=None):
        if timeout is None:
            raise RuntimeError("event loop would block forever (nothing scheduled)")
        if timeout > 0:
            self._clock.t += timeout
        return []

    def get_map(self):
        return self._keys

    def close(self):
        self._keys.clear()


class VLoop(asyncio.SelectorEventLoop):
    def __init__(self, clock):
        self._vclock = clock
        super().__init__(VSelector(clock))

    def time(self):
        return self._vclock.t

    def _write_to_self(self):
        pass


class FakeTransport(asyncio.Transport):
    """What asyncio hands to the protocol for an established connection."""

    def __init__(self, world, cid, proto):
        super().__init__()
        self.world, self.cid, self.proto = world, cid, proto
        self.closing = False
        self.lost_delivered = False
        self.writes = []
        self.fail_next_write = None
        self.serial = self  # BaseMySensorsProtocol logs transport.serial for serial links

    def write(self, data):
        w = self.world
        if self.closing:
            w.log.append((w.clock.t, "write-after-close", self.cid, bytes(data)))
            return
        if self.fail_next_write is not None:
            exc, self.fail_next_write = self.fail_next_write, None
            self._lose(exc, "write-error")
            return
        self.writes.append((w.clock.t, bytes(data)))
        w.log.append((w.clock.t, "write", self.cid, bytes(data)))
        w.device_received(self, bytes(data))

    def is_closing(self):
        return self.closing

    def close(self):
        if self.closing:
            return
        self._lose(None, "closed-by-user" if self.world.user_closing else "closed-by-gateway")

    def abort(self):
        self.close()

    def _lose(self, exc, why):
        if self.closing:
            return
        self.closing = True
        self.world.log.append((self.world.clock.t, "conn-end", self.cid, why, repr(exc)))
        self.world.ended.append({"cid": self.cid, "t": self.world.clock.t, "why": why, "exc": exc})
        self.world.loop.call_soon(self._deliver, exc)

    def _deliver(self, exc):
        self.lost_delivered = True
        self.proto.connection_lost(exc)

    # peer side -----------------------------------------------------------------
    def peer_data(self, data):
        if not self.closing:
            self.proto.data_received(data)

    def peer_abort(self, exc):
        self._lose(exc, "peer-error")

    def peer_eof(self):
        # asyncio: eof_received() returning a false value closes the transport -> connection_lost(None)
        keep = None
        eof = getattr(self.proto, "eof_received", None)
        if eof is not None:
            keep = eof()
        if not keep:
            self._lose(None, "peer-eof")


class World:
    """Owns the loop, the clock, the dial script and all records."""

    def __init__(self, kind, reconnect_timeout, version="2.2", save_fails=False):
        import mysensors.gateway_serial as gs
        import mysensors.gateway_tcp as gt
        import mysensors.mysensors as api

        self.kind = kind  # "serial" | "tcp"
        self.rt = reconnect_timeout
        self.clock = Clock()
        self.t0 = self.clock.t
        self.user_closing = False
        self.loop_errors = []
        self.loop = VLoop(self.clock)
        self.loop.set_exception_handler(lambda loop, ctx: self.loop_errors.append((ctx.get("message", "loop"), ctx.get("exception"))))
        asyncio.set_event_loop(self.loop)
        self.log = []
        self.dials = []  # dict(t, outcome, end)
        self.dial_script = []
        self.conns = []
        self.ended = []
        self.made = []
        self.lost = []
        self.probe_latency = []  # per probe: seconds, or None = never answered
        self.probes = []
        self.silent_from = None
        self._gs, self._gt = gs, gt
        self._saved = {}
        world = self

        class _Time:
            @staticmethod
            def time():
                return world.clock.t

            @staticmethod
            def sleep(secs):
                raise RuntimeError("blocking sleep inside the asyncio flavour")

        self._saved["gt.time"] = gt.time
        gt.time = _Time
        # a gateway with persistence whose final save (inside stop()) fails: disk full
        pkw = {}
        if save_fails:
            import tempfile

            self._pdir = tempfile.mkdtemp(prefix="vf_c20_")
            pkw = {"persistence": True, "persistence_file": self._pdir + "/net.json"}
        if kind == "serial":
            self._saved["create_serial"] = gs.serial_asyncio.create_serial_connection
            gs.serial_asyncio.create_serial_connection = self._create_serial
            self.gw = api.AsyncSerialGateway("/dev/ttyFAKE", reconnect_timeout=reconnect_timeout, protocol_version=version, **pkw)
        else:
            self.gw = api.AsyncTCPGateway("10.0.0.1", reconnect_timeout=reconnect_timeout, protocol_version=version, **pkw)
        self._arm_save_failure(save_fails)
        self.loop.create_connection = self._create_connection
        self.loop.run_in_executor = self._inline_executor
        self.cb_epoch = 0
        self.swap_callbacks(first=True)
        self.stopped_at = None

    def close(self):
        if getattr(self, "_pdir", None):
            import shutil

            shutil.rmtree(self._pdir, ignore_errors=True)
        try:
            pending = [t for t in asyncio.all_tasks(self.loop) if not t.done()]
            for t in pending:
                t.cancel()
            if pending:
                self.loop.run_until_complete(asyncio.gather(*pending, return_exceptions=True))
        except Exception:  # pylint: disable=broad-except
            pass
        finally:
            self._gt.time = self._saved["gt.time"]
            if "create_serial" in self._saved:
                self._gs.serial_asyncio.create_serial_connection = self._saved["create_serial"]
            self.loop.close()
            asyncio.set_event_loop(None)

    # -- fakes -------------------------------------------------------------------------
    def _inline_executor(self, _executor, func, *args):
        fut = self.loop.create_future()
        try:
            fut.set_result(func(*args))
        except Exception as exc:  # pylint: disable=broad-except
            fut.set_exception(exc)
        return fut

    def _current_cid(self):
        return self.conns[-1].cid if self.conns else None

    def _next_outcome(self):
        return self.dial_script.pop(0) if self.dial_script else "ok"

    def _establish(self, factory):
        proto = factory()
        if proto is None:
            # what asyncio does when the factory returns None (transport.protocol was cleared)
            raise AttributeError("'NoneType' object has no attribute 'connection_made'")
        tr = FakeTransport(self, len(self.conns), proto)
        self.conns.append(tr)
        self.log.append((self.clock.t, "established", tr.cid))
        self.loop.call_soon(proto.connection_made, tr)
        return tr, proto

    async def _create_connection(self, factory, host=None, port=None, **kw):
        outcome = self._next_outcome()
        rec = {"t": self.clock.t, "outcome": outcome, "end": None, "target": (host, port)}
        self.dials.append(rec)
        self.log.append((self.clock.t, "dial", outcome))
        if self.stopped_at is not None:
            rec["after_stop"] = True
        if outcome == "fail":
            await asyncio.sleep(0)
            rec["end"] = self.clock.t
            raise OSError("connection refused")
        if outcome == "timeout":
            try:
                await asyncio.sleep(10 ** 6)
            finally:
                rec["end"] = self.clock.t
        rec["end"] = self.clock.t
        return self._establish(factory)

    async def _create_serial(self, loop, factory, port, baud, **kw):
        import serial

        outcome = self._next_outcome()
        if outcome == "timeout":
            outcome = "fail"
        rec = {"t": self.clock.t, "outcome": outcome, "end": None, "target": (port, baud)}
        self.dials.append(rec)
        self.log.append((self.clock.t, "dial", outcome))
        if self.stopped_at is not None:
            rec["after_stop"] = True
        if outcome == "fail":
            rec["end"] = self.clock.t
            raise serial.SerialException("could not open port")
        rec["end"] = self.clock.t
        return self._establish(factory)

    # -- simulated gateway device ---------------------------------------------------------
    def device_received(self, tr, data):
        for line in data.split(b"\n"):
            if line.startswith(b"0;255;3;0;2;"):
                idx = len(self.probes)
                latency = self.probe_latency[idx] if idx < len(self.probe_latency) else (None if self.silent_from is not None and self.clock.t >= self.silent_from else 0.0)
                if self.silent_from is not None and self.clock.t >= self.silent_from:
                    latency = None
                self.probes.append({"t": self.clock.t, "cid": tr.cid, "latency": latency})
                if latency is not None:
                    self.loop.call_later(latency, tr.peer_data, b"0;255;3;0;2;2.3.2\n")

    # -- driving ---------------------------------------------------------------------------
    def settle(self):
        """Run everything that is ready at the current virtual instant."""
        for _ in range(6):
            self.loop.run_until_complete(asyncio.sleep(0))

    def advance(self, seconds):
        self.loop.run_until_complete(asyncio.sleep(seconds))
        self.settle()

    def start(self):
        self.loop.run_until_complete(self.gw.start())
        self.settle()

    def swap_callbacks(self, first=False):
        """The application assigns new on_conn_made / on_conn_lost callbacks (documented attributes)."""
        if not first:
            self.cb_epoch += 1
        epoch = self.cb_epoch

        def made(gw):
            self.made.append({"t": self.clock.t, "gw": gw, "cid": self._current_cid(), "epoch": epoch, "current": self.cb_epoch})
            self.log.append((self.clock.t, "on_conn_made"))

        def lost(gw, exc):
            self.lost.append({"t": self.clock.t, "gw": gw, "exc": exc, "epoch": epoch, "current": self.cb_epoch})
            self.log.append((self.clock.t, "on_conn_lost", repr(exc)))

        self.gw.on_conn_made = made
        self.gw.on_conn_lost = lost

    def _arm_save_failure(self, save_fails):
        self.stop_raised = None
        if not save_fails:
            return

        def no_space():
            raise OSError(28, "No space left on device")

        self.gw.tasks.persistence.save_sensors = no_space

    def stop(self):
        live = self.live_conn()
        self.user_closing = True
        try:
            self.loop.run_until_complete(self.gw.stop())
        except OSError as exc:
            if "No space left" not in str(exc):
                raise
            self.stop_raised = exc  # the injected save failure; stop() must have shut the link down regardless
        finally:
            self.user_closing = False
        self.stopped_at = self.clock.t
        self.stop_marks = {"dials": len(self.dials), "made": len(self.made), "lost": len(self.lost), "log": len(self.log), "live": live is not None}

    def user_disconnect(self):
        self.user_closing = True
        try:
            self.gw.tasks.transport.disconnect()
        finally:
            self.user_closing = False

    def after_stop(self):
        m = self.stop_marks
        writes = [e for e in self.log[m["log"]:] if e[1] == "write"]
        return {
            "dials": len(self.dials) - m["dials"],
            "made": len(self.made) - m["made"],
            "lost": len(self.lost) - m["lost"],
            "allowed_lost": 1 if m["live"] else 0,
            "writes": writes,
        }

    def errors(self):
        return [(msg, exc) for msg, exc in self.loop_errors if exc is not None]

    def loss_delivered(self, cid):
        return self.conns[cid].lost_delivered

    def peer_data(self, conn, data):
        conn.peer_data(data)

    def peer_abort(self, conn, exc):
        conn.peer_abort(exc)

    def peer_eof(self, conn):
        conn.peer_eof()

    def fail_next_write(self, conn, exc):
        conn.fail_next_write = exc

    def live_conn(self):
        for tr in reversed(self.conns):
            if not tr.closing:
                return tr
        return None
