"""C02 - wire codec is a faithful, canonical round trip."""
import json
import re

from hypothesis import strategies as st

from vf import common
from vf.common import Violation
from vf.ref import codec

PROP = "C02"
RULE = (
    "Hypothesis-generated cases of three kinds: enc (six fields -> encode -> decode), "
    "dec (a line spelled with exotic int() spellings / wrong field counts / arbitrary "
    "text -> decode -> encode -> decode -> encode), copy (message + subset of replaced "
    "fields). Non-trivial = payload non-empty and (non-ASCII or blank-leading), or >=1 "
    "header out of 0..255 or in non-canonical spelling, or a non-empty copy subset; "
    "distinct by hash of the whole case."
)

CANON_RE = re.compile(r"^-?[0-9]+(;-?[0-9]+){4};[^\n]*\n$")
FIELDS = ("node_id", "child_id", "type", "ack", "sub_type", "payload")

# ---------------------------------------------------------------------------
# strategies (all cases are JSON-able dicts)

_payload_chars = st.characters(exclude_categories=["Cs"], exclude_characters=";\n\r")
_nonblank = _payload_chars.filter(lambda c: not c.isspace())


@st.composite
def payloads(draw):
    kind = draw(st.integers(0, 9))
    if kind == 0:
        return ""
    if kind == 1:
        body = draw(st.text(_payload_chars, max_size=8))
        return " \t" + body + draw(_nonblank)
    if kind == 2:
        a = draw(st.text(_payload_chars, max_size=5))
        sep = draw(st.sampled_from(["\x1c", "\xa0", "\x85", " ", "\x0b", " "]))
        return a + sep + draw(st.text(_payload_chars, max_size=5)) + draw(_nonblank)
    if kind == 3:
        return draw(
            st.sampled_from(["1,2,3", "0:0", "12", "-1", "1.5", "ff00ff", "a,b", "0"])
        )
    if kind == 4:
        unit = draw(st.text(_payload_chars, min_size=1, max_size=10))
        return (unit * 2000)[:10000] + draw(_nonblank)
    body = draw(st.text(_payload_chars, max_size=30))
    if body and body[-1].isspace():
        body += draw(_nonblank)
    return body


def _enum_values():
    from mysensors.const import get_const

    vals = []
    for ver in common.VERSIONS:
        const = get_const(ver)
        for cls in ("MessageType", "Presentation", "SetReq", "Internal", "Stream"):
            for member in getattr(const, cls):
                vals.append((ver, cls, member.name))
    return vals


@st.composite
def header_values(draw):
    """JSON-able description of a header value: int, bool or enum member."""
    kind = draw(st.integers(0, 5))
    if kind == 0:
        return {"k": "int", "v": draw(st.integers())}
    if kind == 1:
        return {"k": "int", "v": draw(st.integers(-3, 260))}
    if kind == 2:
        return {"k": "bool", "v": draw(st.booleans())}
    if kind == 3:
        ver, cls, name = draw(st.sampled_from(_enum_values()))
        return {"k": "enum", "ver": ver, "cls": cls, "name": name}
    return {"k": "int", "v": draw(st.integers(0, 255))}


def realise(hv):
    if hv["k"] == "enum":
        from mysensors.const import get_const

        return getattr(get_const(hv["ver"]), hv["cls"])[hv["name"]]
    return hv["v"]


_DIGIT_ZEROS = [0x0030, 0x0660, 0x06F0, 0x0966, 0xFF10, 0x1D7CE, 0x0E50]


@st.composite
def int_spellings(draw):
    value = draw(st.one_of(st.integers(-5, 300), st.integers()))
    digits = str(abs(value))
    style = draw(st.integers(0, 7))
    sign = "-" if value < 0 else ""
    if style == 0:
        return sign + digits
    if style == 1:
        sign = sign or "+"
    if style == 2:
        digits = "0" * draw(st.integers(1, 4)) + digits
    if style == 3 and len(digits) > 1:
        pos = draw(st.integers(1, len(digits) - 1))
        digits = digits[:pos] + "_" + digits[pos:]
    if style == 4:
        zero = draw(st.sampled_from(_DIGIT_ZEROS))
        digits = "".join(chr(zero + int(d)) for d in digits)
    lead = trail = ""
    if style in (5, 7):
        lead = draw(st.sampled_from([" ", "\t", "\xa0", "  ", "\x1f", " "]))
    if style in (6, 7):
        trail = draw(st.sampled_from([" ", "\t", "\xa0", "\x0c", "　"]))
    return lead + sign + digits + trail


@st.composite
def lines(draw):
    kind = draw(st.integers(0, 9))
    ending = draw(st.sampled_from(["", "\n", "\r\n", " \t\n", "\n\n", "\x1c\n"]))
    if kind <= 4:  # decodable by construction
        heads = [draw(int_spellings()) for _ in range(5)]
        pay = draw(payloads())
        return ";".join(heads + [pay]) + ending
    if kind == 5:  # wrong field count
        n = draw(st.sampled_from([0, 1, 2, 3, 4, 5, 7, 8]))
        parts = [draw(int_spellings()) for _ in range(n)]
        return ";".join(parts) + ending
    if kind == 6:  # one header not an integer
        heads = [draw(int_spellings()) for _ in range(5)]
        bad = draw(
            st.sampled_from(
                ["", "a", "1.0", "1e3", "0x10", "--1", "1__0", "_1", "1_", "+", "-", " ", "½", "①", "1 2", "nan"]
            )
        )
        heads[draw(st.integers(0, 4))] = bad
        return ";".join(heads + [draw(payloads())]) + ending
    if kind == 7:  # truncated prefix of a good line
        heads = [draw(int_spellings()) for _ in range(5)]
        full = ";".join(heads + [draw(payloads())])
        return full[: draw(st.integers(0, len(full)))] + ending
    return draw(st.text(st.characters(exclude_categories=["Cs"], exclude_characters="\n"), max_size=40)) + ending


@st.composite
def cases(draw):
    kind = draw(st.sampled_from(["enc", "dec", "dec", "copy"]))
    if kind == "enc":
        return {
            "kind": "enc",
            "head": [draw(header_values()) for _ in range(5)],
            "payload": draw(payloads()),
        }
    if kind == "dec":
        return {"kind": "dec", "line": draw(lines())}
    repl = {}
    for name in draw(st.sets(st.sampled_from(FIELDS))):
        repl[name] = draw(payloads()) if name == "payload" else draw(header_values())
    if draw(st.integers(0, 2)) == 0:
        # the original comes off the wire and has fields assigned / is re-decoded before it is copied
        assigned = {}
        for name in draw(st.sets(st.sampled_from(FIELDS), min_size=1)):
            assigned[name] = draw(payloads()) if name == "payload" else {"k": "int", "v": draw(st.integers(-3, 300))}
        return {
            "kind": "copy_wire",
            "line": ";".join([str(draw(st.integers(-3, 300))) for _ in range(5)] + [draw(payloads())]),
            "assign": assigned,
            "redecode": ";".join([str(draw(st.integers(0, 255))) for _ in range(5)] + [draw(payloads())]) if draw(st.booleans()) else None,
            "how": draw(st.sampled_from(["setattr", "modify"])),
            "replace": repl,
        }
    return {
        "kind": "copy",
        "head": [draw(header_values()) for _ in range(5)],
        "payload": draw(payloads()),
        "replace": repl,
    }


# ---------------------------------------------------------------------------
# oracle


def six(msg):
    return (msg.node_id, msg.child_id, msg.type, msg.ack, msg.sub_type, msg.payload)


def check_case(case, stats=None):
    from mysensors.message import Message

    kind = case["kind"]
    if kind == "enc":
        head = [realise(h) for h in case["head"]]
        payload = case["payload"]
        msg = Message(
            node_id=head[0], child_id=head[1], type=head[2], ack=head[3],
            sub_type=head[4], payload=payload,
        )
        wire = msg.encode()
        expect = tuple(int(h) for h in head) + (payload,)
        if wire != codec.encode(expect):
            raise Violation("enc.canonical", case, f"encode gave {wire!r}, spec {codec.encode(expect)!r}")
        back = six(Message(wire))
        if back != expect or not all(type(x) is int for x in back[:5]):
            raise Violation("enc.roundtrip", case, f"decode(encode(m)) = {back!r}, expected {expect!r}")
        nt = (payload and (not payload.isascii() or payload[0].isspace())) or any(
            not 0 <= int(h) <= 255 for h in head
        )
        if stats is not None:
            stats.case(common.chash(case) if nt else None, case, labels=("enc",))
        return
    if kind == "dec":
        line = case["line"]
        try:
            ref = codec.decode(line)
        except codec.Malformed:
            ref = None
        try:
            msg = Message(line)
        except ValueError:
            msg = None
        except Exception as exc:  # pylint: disable=broad-except
            raise Violation("dec.exception", case, f"decode raised {type(exc).__name__}: {exc}") from exc
        if ref is None and msg is not None:
            # Unpinned corner: the line is malformed only because of blanks in front
            # of the first header that int() does not skip (0x1c-0x1f) - a decoder that
            # strips both ends is as good as one that strips the tail only.
            try:
                ref = codec.decode(line.strip())
                if stats is not None:
                    stats.label("dec-unpinned-leading-separator")
            except codec.Malformed:
                ref = None
        if ref is None:
            if msg is not None:
                raise Violation("dec.accepts_malformed", case, f"malformed line decoded to {six(msg)!r}")
            if stats is not None:
                stats.case(None, labels=("dec-malformed",))
            return
        if msg is None:
            raise Violation("dec.rejects_wellformed", case, f"spec decodes to {ref!r}")
        if six(msg) != ref:
            raise Violation("dec.fields", case, f"decoded {six(msg)!r}, spec {ref!r}")
        wire = msg.encode()
        if wire is None or not CANON_RE.match(wire):
            raise Violation("dec.canonical", case, f"re-encoded to non canonical {wire!r}")
        if wire != codec.encode(ref):
            raise Violation("dec.canonical", case, f"re-encoded {wire!r}, spec {codec.encode(ref)!r}")
        again = Message(wire)
        if six(again) != ref or again.encode() != wire:
            raise Violation("dec.fixpoint", case, f"second trip {six(again)!r} / {again.encode()!r}")
        nt = (
            not codec.header_spelling_canonical(line)
            or any(not 0 <= h <= 255 for h in ref[:5])
            or (ref[5] and (not ref[5].isascii() or ref[5][0].isspace()))
        )
        if stats is not None:
            stats.case(common.chash(case) if nt else None, case, labels=("dec-ok",))
        return
    if kind == "copy":
        head = [realise(h) for h in case["head"]]
        gw_marker = object()
        msg = Message(
            gateway=gw_marker, node_id=head[0], child_id=head[1], type=head[2],
            ack=head[3], sub_type=head[4], payload=case["payload"],
        )
        before = six(msg)
        repl = {
            k: (v if k == "payload" else realise(v)) for k, v in case["replace"].items()
        }
        cpy = msg.copy(**repl)
        if six(msg) != before or msg.gateway is not gw_marker:
            raise Violation("copy.mutates_original", case, f"original became {six(msg)!r}")
        if cpy is msg:
            raise Violation("copy.same_object", case, "copy returned the original object")
        for i, name in enumerate(FIELDS):
            got = getattr(cpy, name)
            if name in repl:
                want = repl[name]
                good = got == want and type(got) is type(want)
            else:
                want = int(before[i]) if i < 5 else before[i]
                good = got == want and type(got) is type(want)
            if not good:
                raise Violation("copy.field", case, f"{name}: got {got!r}, expected {want!r}")
        if cpy.gateway is not gw_marker:
            raise Violation("copy.gateway", case, "copy lost the gateway reference")
        if stats is not None:
            stats.case(common.chash(case) if repl else None, case, labels=("copy",))
        return
    if kind == "copy_wire":
        msg = Message(case["line"])
        if case["redecode"] is not None:
            msg.decode(case["redecode"])
        assign = {k: (v if k == "payload" else realise(v)) for k, v in case["assign"].items()}
        if case["how"] == "modify":
            msg.modify(**assign)
        else:
            for key, val in assign.items():
                setattr(msg, key, val)
        before = six(msg)
        repl = {k: (v if k == "payload" else realise(v)) for k, v in case["replace"].items()}
        cpy = msg.copy(**repl)
        if six(msg) != before:
            raise Violation("copy.mutates_original", case, f"original became {six(msg)!r}")
        for i, name in enumerate(FIELDS):
            want = repl[name] if name in repl else before[i]
            got = getattr(cpy, name)
            if got != want:
                raise Violation("copy.stale_field", case, f"{name}: copy has {got!r}, the original currently holds {want!r} (fields were assigned after decoding)")
        if cpy.encode() != codec.encode(tuple(int(x) for x in six(cpy)[:5]) + (six(cpy)[5],)):
            raise Violation("copy.encode", case, f"copy encodes to {cpy.encode()!r}")
        if stats is not None:
            stats.case(common.chash(case), case, labels=("copy-wire",))
        return
    raise common.HarnessError(f"unknown case kind {kind}")


def _shard(args):
    seed_value, n = args
    common.setup_path()
    stats = common.Stats()
    common.run_given(stats, cases(), lambda c: check_case(c, stats), n, seed_value)
    return stats


def regression_cases():
    import glob
    import os

    out = []
    for path in sorted(glob.glob(os.path.join(common.REPLAY_DIR, f"{PROP}-*.json"))):
        with open(path, encoding="utf-8") as fh:
            out.append((path, json.load(fh)))
    return out


def main(tier):
    run = common.Run(
        PROP, tier, "exploration", RULE,
        assumptions=[
            "reference codec vf/ref/codec.py (unicodedata-based integer reader) is the oracle",
            "header digit strings stay below Python's 4300-digit int() limit",
        ],
    )
    for path, body in regression_cases():
        try:
            check_case(body["case"], run.stats)
        except Violation as v:
            run.stats.violation(v.clause, v.case, f"[regression {path}] {v.detail}")
    if tier == "quick":
        shards = [(common.shard_seed(common.seed(), i), 1500) for i in range(8)]
    else:
        shards = [(common.shard_seed(common.seed(), i), 25000) for i in range(16)]
    for stats in common.pool_map(_shard, shards):
        run.stats.merge(stats)
    if tier == "thorough":
        from vf import fuzz

        fuzz.run_atheris(run, "c02", runs=600000)
    return run.finish()


def replay(path):
    common.setup_path()
    with open(path, encoding="utf-8") as fh:
        body = json.load(fh)
    try:
        check_case(body["case"])
    except Violation as v:
        print(f"VIOLATION property={PROP} replay={path}")
        print(f"  clause={v.clause} detail={v.detail}")
        return 1
    print(f"{PROP} replay {path}: holds")
    return 0
