"""Run a generated history on the real gateway and on the reference model in
lock-step and compare after every step.

A failed clause carries the set of *families* it belongs to; each property's check
passes the families it owns. A failure outside those families aborts the history
silently (the model can no longer follow) and is counted as 'foreign'.

families:  state callback reply sleep wake ota ids crash
"""
import os
import time as _time

from vf import drive
from vf.common import Violation
from vf.ref import codec
from vf.ref import model as M
from vf.ref import ota as O
from vf.ref import tables as T
from vf.ref import validate as V


class Clause(Exception):
    def __init__(self, families, name, detail):
        super().__init__(name)
        self.families = set(families)
        self.name = name
        self.detail = detail


class FakeTime:
    """Replacement for the `time` module inside mysensors.handler."""

    def __init__(self):
        self.struct = _time.gmtime(0)

    def localtime(self, *args):
        return self.struct

    def gmtime(self, *args):
        return _time.gmtime(12345)  # deliberately different from localtime

    def time(self):
        return 0.0


def image_bytes(spec):
    """Deterministic firmware image from a JSON-able spec {len, seed, fill}."""
    import random

    n = spec["len"]
    fill = spec.get("fill", "random")
    if fill == "zero":
        return bytes(n)
    if fill == "ff":
        return b"\xff" * n
    rnd = random.Random(spec.get("seed", 0))
    data = bytearray(rnd.getrandbits(8) for _ in range(n))
    if fill == "lastff" and n:
        data[-1] = 0xFF
    if fill == "gap" and n >= 6:
        # erased flash between two sections (a sketch and something higher up): a hex file leaves such a
        # region out altogether
        data[n // 3: 2 * n // 3] = b"\xff" * (2 * n // 3 - n // 3)
    return bytes(data)


class Session:
    """One real gateway + one model, stepped together."""

    def __init__(self, version, flavour="sync", snapshot_in_callback=True, driver=None, persist=None, spelling=None):
        import mysensors.handler as handler

        self.version = version
        # what the application passes as protocol_version: "2.0" may as well be written "2.0.0", 2.0 or "2.0.5"
        self.spelling = spelling if spelling is not None else version
        self._scratch = None
        if driver is None and persist:
            import tempfile

            self._scratch = tempfile.mkdtemp(prefix="vf_ls_")
            self._pfile = os.path.join(self._scratch, f"net.{persist}")
            driver = drive.Driver(self.spelling, flavour, snapshot_in_callback=snapshot_in_callback, persistence=True,
                                  persistence_file=self._pfile)
        self.driver = driver or drive.Driver(self.spelling, flavour, snapshot_in_callback=snapshot_in_callback)
        self.model = M.Gateway(version)
        self.clock = FakeTime()
        self.model.clock = self.clock.struct
        self._handler = handler
        self._saved_time = handler.time
        handler.time = self.clock
        self.images = {}
        self.step_no = 0
        self.labels = set()

    def close(self):
        self._handler.time = self._saved_time
        if self._scratch:
            import shutil

            shutil.rmtree(self._scratch, ignore_errors=True)

    # -- step kinds -----------------------------------------------------------
    def apply(self, op):
        self.step_no += 1
        kind = op["op"]
        if kind == "line":
            return self._line(op["text"])
        if kind == "burst":
            return self._burst(op["texts"])
        if kind == "nline":
            # traffic on ANOTHER gateway object of the same process (same version and flavour): this gateway
            # must not notice - nothing emitted, no callback, state unchanged
            if getattr(self, "neighbour", None) is None:
                self.neighbour = drive.Driver(self.spelling, self.driver.flavour if self.driver.flavour in ("sync", "async") else "sync")
            mark, cbs = len(self.driver.sent_log()), len(self.driver.cb_log)
            self.neighbour.line(op["text"])
            if len(self.driver.sent_log()) != mark or len(self.driver.cb_log) != cbs:
                raise Clause({"state", "reply", "callback", "sleep", "wake", "crash"}, "other_gateway_traffic_has_effect", f"line {op['text']!r} handled by another gateway object made this one emit {self.driver.sent_log()[mark:]} / fire {len(self.driver.cb_log) - cbs} callbacks")
            self._check_state(f"after line {op['text']!r} on another gateway")
            self.labels.add("neighbour")
            return None
        if kind == "set":
            return self._set(op)
        if kind == "fw":
            return self._fw(op)
        if kind == "save":
            # a periodic save happens now; saving must not change the gateway's behaviour
            pers = self.driver.gw.tasks.persistence
            if pers is not None:
                try:
                    pers.save_sensors()  # a tick of the periodic schedule: writes if the state is marked unsaved
                except Exception as exc:  # pylint: disable=broad-except
                    raise Clause({"crash", "state", "sleep", "wake", "reply"}, f"save_raises.{type(exc).__name__}", f"a periodic save raised {exc!r}") from exc
                self._check_state("after a periodic save")
                self.labels.add("save")
            return None
        if kind == "restart":
            # the controller process ends cleanly and a new gateway object starts from the persistence file
            old = self.driver
            pers = old.gw.tasks.persistence
            if pers is None or self._scratch is None:
                return None
            try:
                pers.save_sensors()  # what stop() does: the final save relies on the unsaved mark
                new = drive.Driver(self.spelling, old.flavour, snapshot_in_callback=old.snapshot_in_callback, persistence=True, persistence_file=self._pfile)
                new.gw.tasks.persistence.safe_load_sensors()
            except Exception as exc:  # pylint: disable=broad-except
                raise Clause({"crash", "state", "sleep", "wake", "reply"}, f"restart_raises.{type(exc).__name__}", f"saving / loading at a restart raised {exc!r}") from exc
            new.cb_raise = old.cb_raise
            self.driver = new
            self.model.restart()
            self.sent_before_restart = getattr(self, "sent_before_restart", 0) + len(old.sent_log())
            self._check_state("after a restart from the persistence file")
            self.labels.add("restart")
            return None
        if kind == "metric":
            self.driver.gw.metric = bool(op["value"])
            self.model.metric = bool(op["value"])
            return None
        if kind == "cb_raise":
            self.driver.cb_raise = bool(op["value"])
            return None
        if kind == "clock":
            self.clock.struct = _time.struct_time(tuple(op["t"]) + (0, 1, op.get("dst", 0)))
            self.model.clock = self.clock.struct
            return None
        raise ValueError(kind)

    def _line(self, text):
        model = self.model
        try:
            fields = codec.decode(text)
        except codec.Malformed:
            fields = None
        before = self.driver.snapshot() if fields is None else None
        sleeping_before = {nid for nid, n in model.nodes.items() if n.sleeping}
        if fields is not None:
            verdict = V.validate(self.version, fields)
            if verdict is None:
                raise ValueError(f"history contains an unpinned frame {text!r}")
            if not verdict:
                before = self.driver.snapshot()
        step = self.driver.line(text)
        if step.exc is not None:
            fams = {"crash"}
            if fields is not None and fields[0] in sleeping_before | {n for n, x in model.nodes.items() if x.children}:
                fams.add("wake")
            if fields is not None and fields[2] == T.STREAM:
                fams.add("ota")
            raise Clause(fams, f"crash.{type(step.exc).__name__}", f"line {text!r} made the pump raise {type(step.exc).__name__}: {step.exc}")
        if before is not None:
            after = self.driver.snapshot()
            if after != before or step.sent or step.callbacks:
                raise Clause({"crash", "state", "reply", "callback"}, "rejected_line_has_effect", f"rejected line {text!r} changed {diff_keys(before, after)} sent={step.sent} callbacks={len(step.callbacks)}")
            return step
        exp = model.inbound(fields)
        self.labels.update(exp.labels)
        if exp.malformed_fw and model.nodes[fields[0]].ota != {"idle"}:
            self.labels.add("ota-malformed-live")
        self._resolve_id(exp, fields, step)
        self._check_emissions(step, exp, sleeping_before, inbound=fields)
        self._check_callbacks(step, exp, fields)
        self._check_state(f"after line {text!r}")
        return step

    def _burst(self, texts):
        """Lines that arrive in one read: every one is queued before the first queued job runs (what the
        threaded gateways do when a chunk carries several lines). Generated from frames that are valid, are no
        id / firmware requests and no wake-up announcements. Emissions are compared as a multiset (the order
        between replies and deferred commands of different lines is not pinned), callbacks in order."""
        model = self.model
        frames = []
        for text in texts:
            fields = codec.decode(text)
            if V.validate(self.version, fields) is not True:
                raise ValueError(f"burst contains a frame that is not valid: {text!r}")
            frames.append(fields)
        sleeping_before = {nid for nid, n in model.nodes.items() if n.sleeping}
        step = self.driver.burst(texts)
        if step.exc is not None:
            raise Clause({"crash"}, f"crash.{type(step.exc).__name__}", f"lines {texts!r} made the pump raise {type(step.exc).__name__}: {step.exc}")
        want, cbs = [], list(step.callbacks)
        for fields in frames:
            exp = model.inbound(fields)
            self.labels.update(exp.labels)
            if exp.id_request or exp.ota is not None or exp.wake is not None:
                raise ValueError(f"burst contains an id / firmware / wake-up frame: {fields}")
            want.extend(exp.sent)
            mine = []
            if cbs and tuple(cbs[0][0]) == tuple(fields):
                mine.append(cbs.pop(0))
            shadow = Step_like(mine)
            self._check_callbacks(shadow, exp, fields)
        if cbs:
            raise Clause({"callback"}, "callback_unexpected", f"lines {texts!r}: callbacks {[c[0] for c in cbs]} do not belong to the lines in order")
        got = []
        for line in step.sent:
            try:
                f = emitted_fields(line)
            except codec.Malformed as exc:
                raise Clause({"reply"}, "emitted_malformed", f"emitted {line!r} is not a single canonical command line: {exc}") from exc
            if V.validate(self.version, f) is False:
                raise Clause({"reply"}, "emitted_invalid", f"emitted {line!r} is not valid for version {self.version}")
            if f[0] in sleeping_before and f[2] != T.STREAM:
                raise Clause({"sleep"}, "sent_to_sleeping_node", f"{line!r} left the gateway while node {f[0]} sleeps (lines {texts!r})")
            got.append(f)
        if sorted(strip_ack(g) for g in got) != sorted(strip_ack(w) for w in want):
            fams = {"reply"}
            if sleeping_before:
                fams.add("sleep")
            raise Clause(fams, "reply_mismatch", f"lines {texts!r} arriving in one read: emitted {[codec.encode(g) for g in got]}, prescribed (any order) {[codec.encode(w) for w in want]}")
        self._check_state(f"after lines {texts!r}")
        self.labels.add("burst")
        return step

    def _set(self, op):
        model = self.model
        vt = op["vt"]
        if op.get("vt_kind") == "str":
            vt = str(vt)
        elif op.get("vt_kind") == "enum":
            vt = self.driver.gw.const.SetReq(vt)
        kw = {}
        if "ack" in op:
            kw["ack"] = op["ack"]
        mtype = T.SET
        if "msg_type" in op:
            # the documented msg_type keyword: the command is a req (or an explicit set)
            mtype = int(op["msg_type"])
            kw["msg_type"] = self.driver.gw.const.MessageType(mtype) if op.get("mt_kind") == "enum" else mtype
        sleeping_before = {nid for nid, n in model.nodes.items() if n.sleeping}
        target = model.set_value_target(op["n"], op["c"])
        before = self.driver.snapshot()
        step = self.driver.set_value(op["n"], op["c"], vt, op["value"], **kw)
        if step.exc is not None:
            raise Clause({"crash"}, f"crash.{type(step.exc).__name__}", f"set_child_value{(op['n'], op['c'], vt, op['value'])} returned but the pump raised {type(step.exc).__name__}: {step.exc}")
        raised = step.call_exc is not None
        if raised:
            after = self.driver.snapshot()
            if after != before or step.sent:
                raise Clause({"reply", "state", "wake"}, "refused_call_has_effect", f"set_child_value raised {step.call_exc!r} but changed {diff_keys(before, after)} / sent {step.sent}")
            if mtype == T.SET and model.must_accept_set_value(op["n"], op["c"], vt, op["value"], op.get("ack", 0)):
                raise Clause({"wake" if target == "sleeping" else "reply"}, "valid_call_refused", f"set_child_value({op['n']},{op['c']},{vt!r},{op['value']!r}) on a {target} node raised {type(step.call_exc).__name__}: {step.call_exc}")
        if mtype != T.SET and target == "sleeping":
            # whatever the library makes of a req for a sleeping node, nothing may leave now; what the next
            # wake-up carries for it is not pinned by any statement, so the pinned part of the history ends here
            self._check_emissions(step, M.Expect(), sleeping_before, inbound=None)
            self.labels.add("set-msgtype-sleeping")
            raise Clause({"unpinned"}, "history_leaves_pinned_domain", "controller req for a sleeping node")
        exp = model.set_value(op["n"], op["c"], vt, op["value"], op.get("ack", 0), raised, mtype)
        self._check_emissions(step, exp, sleeping_before, inbound=None)
        if step.callbacks:
            raise Clause({"callback"}, "callback_on_controller_call", f"set_child_value fired the event callback {step.callbacks}")
        self._check_state("after set_child_value")
        self.labels.add("set-" + target)
        if target == "sleeping" and not raised and mtype == T.SET:
            node = model.nodes[op["n"]]
            try:
                frame = (op["n"], op["c"], T.SET, 0, int(vt), str(op["value"]))
            except (TypeError, ValueError):
                frame = None
            if frame is None or V.validate(self.version, frame) is False:
                raise Clause({"wake"}, "undeliverable_desired_value_accepted", f"set_child_value({op['n']},{op['c']},{vt!r},{op['value']!r}) on a sleeping node (presented version {sorted(node.version)}) was accepted although the command is not valid for the gateway's version {self.version}; it can only fail at wake-up")
            floors = {M.floor_version(v) for v in node.version}
            if floors != {self.version}:
                self.labels.add("set-sleeping-version-mismatch")
        return step

    def _fw(self, op):
        if op.get("bad_path"):
            return self._fw_bad_path(op)
        image = image_bytes(op["image"]) if op.get("image") else None
        sleeping_before = {nid for nid, n in self.model.nodes.items() if n.sleeping}
        # the update call converts type and version with int(): numeric strings and integral floats are
        # legitimate spellings of the same firmware id
        conv = {"str": str, "float": float}.get(op.get("tv_kind"), int)
        step = self.driver.update_fw(op["nids"], conv(op["type"]), conv(op["ver"]), image=image, via_path=bool(op.get("via_path")))
        if step.exc is not None:
            raise Clause({"crash", "ota"}, f"crash.{type(step.exc).__name__}", f"pump raised after update_fw: {step.exc!r}")
        if step.call_exc is None:
            self.model.update_fw(op["nids"], op["type"], op["ver"], image)
        exp = M.Expect()
        self._check_emissions(step, exp, sleeping_before, inbound=None)
        self._check_state("after update_fw")
        return step

    def _fw_bad_path(self, op):
        """update_fw with a firmware file that is missing, not Intel-HEX or without any data: the call is a no-op."""
        import tempfile

        path = os.path.join(tempfile.gettempdir(), f"vf_no_such_fw_{os.getpid()}.hex")
        content = {"garbage": ":10000000ZZZZ not intel hex\nhello\n", "empty": "", "eof_only": ":00000001FF\n"}.get(op["bad_path"])
        if content is not None:  # "missing": no file at all; the others: a file that holds no firmware
            with open(path, "w", encoding="utf-8") as fh:
                fh.write(content)
        before = self.driver.snapshot()
        try:
            step = self.driver.update_fw(op["nids"], op["type"], op["ver"], path=path)
        finally:
            if os.path.exists(path):
                os.remove(path)
        if step.exc is not None:
            raise Clause({"crash", "ota"}, f"crash.{type(step.exc).__name__}", f"pump raised after update_fw with an unusable firmware file: {step.exc!r}")
        after = self.driver.snapshot()
        if after != before or step.sent:
            raise Clause({"ota"}, "unusable_firmware_file_has_effect", f"update_fw({op['nids']}, {op['type']}, {op['ver']}, fw_path=<{op['bad_path']}>) changed {diff_keys(before, after)} (raised {step.call_exc!r})")
        self.labels.add("fw-bad-path")
        return step

    # -- clauses ----------------------------------------------------------------
    def _resolve_id(self, exp, fields, step=None):
        if not exp.id_request:
            return
        model = self.model
        real_ids = set(self.driver.gw.sensors)
        new = sorted(real_ids - set(model.nodes))
        if len(new) > 1:
            raise Clause({"state", "ids"}, "id_request_adds_many", f"id request created nodes {new}")
        if not new:
            for line in (step.sent if step is not None else ()):
                try:
                    f = codec.decode(line)
                except codec.Malformed:
                    continue
                if f[2] == T.INTERNAL and f[4] == 4:
                    # an id response is an assignment: the tree must gain exactly that node
                    raise Clause({"state", "ids", "reply"}, "id_assigned_without_new_node", f"id request {fields} answered with {line!r} but no node appeared (known {sorted(model.nodes)})")
            if model.can_allocate():
                raise Clause({"reply", "ids"}, "id_request_unanswered", f"id request {fields} not answered although ids above {max(model.nodes) if model.nodes else 0} are free")
            value = None
        else:
            value = new[0]
            if not 1 <= value <= T.MAX_NODE or value in model.handed_out:
                raise Clause({"ids"}, "id_not_fresh", f"id request reserved id {value}; known {sorted(model.nodes)}, handed out {model.handed_out}")
            model.nodes[value] = M.Node(value)
            model.handed_out.append(value)

        def fix(entries):
            out = []
            for e in entries:
                if e[5] is M.ID:
                    if value is None:
                        continue
                    e = e[:5] + (str(value),)
                out.append(e)
            return out

        exp.sent = fix(exp.sent)
        for node in model.nodes.values():
            node.hold = fix(node.hold)

    def _check_emissions(self, step, exp, sleeping_before, inbound):
        model = self.model
        got = []
        for line in step.sent:
            try:
                f = emitted_fields(line)
            except codec.Malformed as exc:
                raise Clause({"reply"}, "emitted_malformed", f"emitted {line!r} is not a single canonical command line: {exc}") from exc
            if V.validate(self.version, f) is False:
                fams = {"reply"}
                if exp.wake is not None:
                    fams.add("wake")
                raise Clause(fams, "emitted_invalid", f"emitted {line!r} is not valid for version {self.version}")
            got.append(f)
        # C07: nothing to a sleeping node outside its wake window
        for f in got:
            dest = f[0]
            if dest in sleeping_before and f[2] != T.STREAM and exp.wake != dest:
                raise Clause({"sleep"}, "sent_to_sleeping_node", f"{codec.encode(f)!r} left the gateway while node {dest} sleeps (step: {inbound if inbound else 'controller call'})")
        owed = [n.id for n in model.nodes.values() if n.sleeping and (n.hold or any(v is not None for v in n.desired.values()))]
        if inbound is not None and any(nid != inbound[0] for nid in owed):
            self.labels.add("sleep-owed-while-other-traffic")
        if exp.ota is not None:
            self._check_ota(got, exp, inbound)
            return
        want = list(exp.sent)
        if exp.id_request:
            # an id response may be broadcast instead of addressed to the requester; if the requester
            # sleeps the model withheld it - accept the broadcast and take it out of the hold queue
            for g in got:
                if g[2] == T.INTERNAL and g[4] == 4 and g[0] == T.BROADCAST and not any(same_command(g, w) for w in want):
                    for node in model.nodes.values():
                        hit = [h for h in node.hold if h[2] == T.INTERNAL and h[4] == 4 and h[5] == g[5]]
                        if hit:
                            node.hold.remove(hit[0])
                            want.append(hit[0])
                            break
        if len(got) != len(want):
            self._reply_mismatch(got, want, exp, sleeping_before, inbound)
        fixed = len(want) - exp.free_tail
        for g, w in zip(got[:fixed], want[:fixed]):
            if not same_command(g, w):
                self._reply_mismatch(got, want, exp, sleeping_before, inbound)
        tail_g = sorted(strip_ack(g) for g in got[fixed:])
        tail_w = sorted(strip_ack(w) for w in want[fixed:])
        if tail_g != tail_w:
            self._reply_mismatch(got, want, exp, sleeping_before, inbound)
        if exp.wake is not None:
            self.labels.add("wake")
            if len(want) - exp.free_tail >= 2:
                self.labels.add("wake-held>=2")
            if exp.free_tail:
                self.labels.add("wake-desired-resent" if "wake-desired" in self.labels else "wake-desired")

    def _reply_mismatch(self, got, want, exp, sleeping_before, inbound):
        if exp.wake is not None:
            # the burst carries the withheld REPLIES, so a wrong burst is also a wrong reply (C05)
            fams = {"wake", "reply"}
        else:
            fams = {"reply"}
            if sleeping_before:
                fams.add("sleep")
            if inbound is not None and inbound[2] == T.INTERNAL and inbound[4] == 3:
                fams.add("ids")
            if inbound is not None and inbound[2] == T.SET:
                fams.add("reboot")
            if inbound is not None and inbound[2] == T.STREAM:
                fams.add("ota")  # a reply to a firmware request the model says must be ignored (or the reverse)
        raise Clause(
            fams, "wake_burst_mismatch" if exp.wake is not None else "reply_mismatch",
            f"step {inbound if inbound else 'controller call'}: emitted {[codec.encode(g) for g in got]}, prescribed {[codec.encode(w) for w in want]} (last {exp.free_tail} in any order; ack not compared)",
        )

    def _check_ota(self, got, exp, inbound):
        model = self.model
        nid = inbound[0]
        node = model.nodes[nid]
        matching = set()
        reasons = []
        for state, sent in exp.ota:
            if len(sent) != len(got):
                reasons.append(f"{state}: expects {len(sent)} replies")
                continue
            ok = True
            for g, w in zip(got, sent):
                if g[:3] != w[:3] or g[4] != w[4]:
                    ok = False
                    reasons.append(f"{state}: header {g} vs {w}")
                    break
                sym = w[5]
                try:
                    if sym[0] == "config":
                        O.check_config(model.firmware[sym[1]], sym[1], g[5])
                    else:
                        O.check_block(model.firmware[sym[1]], sym[1], sym[2], g[5])
                except ValueError as exc:
                    ok = False
                    reasons.append(f"{state}: {exc}")
                    break
            if ok:
                matching.add(state)
        if not matching:
            raise Clause({"ota"}, "ota_reply_mismatch", f"firmware request {inbound} in session state {sorted(node.ota)}: emitted {[codec.encode(g) for g in got]}; {reasons}")
        model.commit_ota(nid, matching)
        self.labels.add("ota-" + "+".join(sorted(matching)))

    def _check_callbacks(self, step, exp, fields):
        cbs = step.callbacks
        want = exp.callback
        if want == "must" and len(cbs) != 1:
            raise Clause({"callback"}, "callback_count", f"state-changing message {fields}: callback fired {len(cbs)} times, expected exactly once")
        if want == "may" and len(cbs) > 1:
            raise Clause({"callback"}, "callback_count", f"message {fields}: callback fired {len(cbs)} times")
        if want == "none" and cbs:
            raise Clause({"callback"}, "callback_unexpected", f"message {fields} that changes nothing fired the callback {len(cbs)} times")
        for got_fields, snap in cbs:
            if tuple(got_fields) != tuple(fields) or not all(type(x) is int for x in got_fields[:5]):
                raise Clause({"callback"}, "callback_fields", f"callback carried {got_fields}, message was {fields}")
            if snap is not None:
                problem = compare_projection(snap, self.model.projection())
                if problem:
                    raise Clause({"callback"}, "callback_before_state", f"inside the callback for {fields} the state did not yet reflect it: {problem}")

    def _check_state(self, where):
        problem = compare_projection(drive.projection(self.driver.gw), self.model.projection())
        if problem:
            raise Clause({"state"}, "state_mismatch", f"{where}: {problem}")


class Step_like:  # pylint: disable=invalid-name,too-few-public-methods
    def __init__(self, callbacks):
        self.callbacks = callbacks


_CANON = __import__("re").compile(r"-?(0|[1-9][0-9]*)\Z")


def emitted_fields(line):
    """Six fields of a command the gateway EMITS, the payload kept byte for byte (trailing blanks included - a
    receiver may strip them, the gateway has no business doing so). Raises codec.Malformed for anything that is
    not `n;c;t;a;s;payload\\n` with canonically spelled numbers and a payload free of ';' and line breaks."""
    if not line.endswith("\n") or "\n" in line[:-1] or "\r" in line:
        raise codec.Malformed("not exactly one LF-terminated line")
    parts = line[:-1].split(";", 5)
    if len(parts) != 6:
        raise codec.Malformed(f"{len(parts)} fields")
    if ";" in parts[5]:
        raise codec.Malformed("delimiter inside the payload")
    for text in parts[:5]:
        if not _CANON.match(text):
            raise codec.Malformed(f"number spelled {text!r}")
    return tuple(int(x) for x in parts[:5]) + (parts[5],)


def strip_ack(f):
    return (f[0], f[1], f[2], f[4], f[5])


def same_command(got, want):
    if want[2] == T.INTERNAL and want[4] == 4 and got[0] == T.BROADCAST:
        # an id response may be addressed to the requester or broadcast
        return strip_ack(got)[1:] == strip_ack(want)[1:]
    return strip_ack(got) == strip_ack(want)


def diff_keys(a, b):
    return [k for k in a if a[k] != b.get(k)]


def compare_projection(real, model):
    """None if equal, else a short description. model protocol_version is a set."""
    if set(real) != set(model):
        return f"nodes {sorted(real)} vs model {sorted(model)}"
    for nid, r in real.items():
        m = model[nid]
        if type(nid) is not int:
            return f"node key {nid!r} is {type(nid).__name__}"
        for attr in ("type", "battery_level", "heartbeat", "sketch_name", "sketch_version"):
            if r[attr] != m[attr] or type(r[attr]) is not type(m[attr]):
                if isinstance(r[attr], int) and isinstance(m[attr], int) and r[attr] == m[attr] and not isinstance(m[attr], bool) and not isinstance(r[attr], bool):
                    continue  # IntEnum member equal to the int is fine
                return f"node {nid} {attr}: {r[attr]!r} vs model {m[attr]!r}"
        if r["protocol_version"] not in m["protocol_version"]:
            return f"node {nid} protocol_version {r['protocol_version']!r} not in {sorted(m['protocol_version'])}"
        if list(r["children"]) != list(m["children"]):
            return f"node {nid} children {list(r['children'])} vs model {list(m['children'])}"
        for cid, rc in r["children"].items():
            mc = m["children"][cid]
            if rc["type"] != mc["type"] or rc["description"] != mc["description"]:
                return f"node {nid} child {cid}: {rc['type']!r}/{rc['description']!r} vs model {mc['type']!r}/{mc['description']!r}"
            if rc["values"] != mc["values"] or [type(k) for k in rc["values"]] != [type(k) for k in mc["values"]]:
                return f"node {nid} child {cid} values {rc['values']!r} vs model {mc['values']!r}"
            for val in rc["values"].values():
                if type(val) is not str:
                    return f"node {nid} child {cid} holds non-text value {val!r}"
    return None


def run_history(case, families, stats=None, flavour=None):
    """Execute case = {version, flavour, ops} and raise Violation for an owned clause.

    Returns the Session labels (for non-triviality accounting)."""
    version = case["version"]
    sess = Session(version, flavour or case.get("flavour", "sync"), persist=case.get("persist"), spelling=case.get("gw_version"))
    try:
        for i, op in enumerate(case["ops"]):
            try:
                sess.apply(op)
            except Clause as cl:
                if cl.families & set(families):
                    raise Violation(cl.name, case, f"step {i} {op}: {cl.detail}") from cl
                if stats is not None:
                    stats.label("foreign:" + cl.name)
                sess.labels.add("aborted")
                break
        return sess
    finally:
        sess.close()
