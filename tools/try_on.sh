#!/bin/sh
# usage: try.sh CNN(check) DIR [seed]
chk=$1; dir=$2; seed=${3:-1}
VERIF_REPO=$dir VERIF_SEED=$seed VERIF_EVIDENCE_DIR=/tmp/vf_try_ev VERIF_RUN_REPLAY_DIR=/tmp/vf_try_rp /verif/check $chk --tier quick 2>&1 | grep -a -E "VIOLATION|clause=|KNOWN|tier=|Traceback|Error" | cut -c1-400 | head -8
