"""C15 - periodic saving heals itself."""
import asyncio
import glob
import json
import os

from hypothesis import strategies as st

from vf import common, drive, faultfs, gen, persist
from vf.common import Violation
from vf.checks.c11 import first_diff

PROP = "C15"
RULE = (
    "Flavour {threaded: threading.Timer replaced by a harness-fired fake; asyncio: own event loop, "
    "asyncio.sleep inside mysensors.task replaced by a harness-resolved future, inline executor} x {json, pickle} "
    "x Hypothesis-generated states. Sequence: initial save, state change, FAULTY scheduled attempt, state change, "
    "clean attempt; and: the first save of a NEW process (good file of the previous run + an older stale backup next to it) with every operation failing. The faulty attempt is enumerated exhaustively per state: every file operation of the save "
    "failing with OSError, every operation index from which EVERY later operation of the attempt fails (storage outage: the clean-up fails too), every permission pre-check answering 'not writable', and every k-th call of the JSON encoder hook / Sensor.__getstate__ at which a "
    "concurrent message (adds a node / a child / a value, or is the wake-up announcement of a smart-sleep node that has an uncovered child) is processed. Oracle: after the faulty attempt a fresh "
    "load yields the previously saved state or a complete newer one (never partial); 'not marked unsaved' implies "
    "'file == current state'; nothing escapes the timer callback / the save task stays alive and a further "
    "attempt is armed; after the next clean attempt a fresh load equals the then-current state. Non-trivial = "
    "fault strictly inside a save with a state change between attempts; distinct by (state hash, flavour, format, "
    "fault kind, position)."
)


@st.composite
def cases(draw):
    lines = []
    for nid in draw(st.lists(st.sampled_from([1, 2, 3]), min_size=1, max_size=2, unique=True)):
        lines.append(f"{nid};255;0;0;17;2.0")
        for cid in draw(st.lists(st.integers(0, 2), min_size=1, max_size=2, unique=True)):
            lines.append(f"{nid};{cid};0;0;{draw(st.integers(0, 25))};{draw(gen.nice_text)}")
            lines.append(f"{nid};{cid};1;0;{draw(st.sampled_from([0, 1, 24]))};{draw(gen.nice_text)}")
    change1 = draw(st.sampled_from(["1;0;1;0;24;c1", "1;255;3;0;11;sketch-c1", "5;255;0;0;17;2.0", "1;255;3;0;0;77"]))
    change2 = draw(st.sampled_from(["1;0;1;0;25;c2", "1;255;3;0;12;9.9", "6;255;0;0;17;2.0", "2;255;3;0;0;33", "SHRINK", "SHRINK", "NONE", "NONE"]))
    if change2 == "NONE":
        change1 = "5;255;0;0;17;2.0"  # a change that always takes effect: the retry alone has to persist it
    if change2 == "SHRINK":
        # the serialised state gets shorter between the failed and the next attempt
        nid0 = int(lines[0].split(";")[0])
        lines.append(f"{nid0};255;3;0;11;{'a very long sketch name ' * 6}")
        change2 = f"{nid0};255;3;0;11;s"
    case = {
        "version": draw(st.sampled_from(common.VERSIONS)),
        "ext": draw(st.sampled_from(["json", "pickle"])),
        "flavour": draw(st.sampled_from(["threaded", "asyncio"])),
        "state": lines,
        "change1": change1,
        "change2": change2,
    }
    if draw(st.booleans()):
        make_sleepy(case)
    case["shape"] = draw(st.sampled_from(["abs", "bare"]))
    return case


def make_sleepy(case):
    """Node 1 becomes a smart-sleep node with two children in its desired-state map and a third child presented
    after its last wake-up: its next wake-up announcement (a concurrent message candidate) then changes the
    node WITHOUT being a state-changing report."""
    from vf.ref import tables as T

    if T.wake_sub(case["version"]) is None:
        case["version"] = "2.2"
    wake = f"1;255;3;0;{T.wake_sub(case['version'])};5"
    case["state"] = list(case["state"]) + ["1;255;0;0;17;2.0", "1;0;0;0;6;a", "1;1;0;0;6;b", wake, "1;2;0;0;6;late"]
    case["wake"] = wake
    return case


CONCURRENT = ["7;255;0;0;17;2.0", "1;2;0;0;6;late child", "1;0;1;0;26;late value", "1;1;1;0;27;late value", "1;255;3;0;0;5"]


# -- flavours -----------------------------------------------------------------------------


class Threaded:
    def __init__(self, version, path):
        self._patch = persist.TimerPatch()
        self.fake = self._patch.__enter__()
        self.driver = drive.Driver(version, "sync", persistence=True, persistence_file=path)
        self.gw = self.driver.gw

    def start(self):
        self.gw.start_persistence()

    def line(self, text):
        return self.driver.line(text)

    def attempt(self):
        """The scheduled save fires. Returns the exception that escaped, or None."""
        armed = self.fake.armed()
        if not armed:
            return "not-armed"
        timer = armed[-1]
        timer.fired = True
        try:
            timer.function()
        except Exception as exc:  # pylint: disable=broad-except
            return exc
        return None

    def armed(self):
        return bool(self.fake.armed())

    def close(self):
        self._patch.__exit__(None, None, None)


class _AsyncioShim:
    """Stand-in for the asyncio module inside mysensors.task: sleep is harness-driven."""

    def __init__(self, host):
        self._host = host
        self.CancelledError = asyncio.CancelledError
        self.get_running_loop = asyncio.get_running_loop

    async def sleep(self, delay):
        fut = asyncio.get_running_loop().create_future()
        self._host.sleepers.append((delay, fut))
        await fut

    def __getattr__(self, name):
        return getattr(asyncio, name)


class Asyncio:
    def __init__(self, version, path):
        import mysensors
        import mysensors.task as task

        self._task_mod = task
        self._saved = task.asyncio
        self.sleepers = []
        task.asyncio = _AsyncioShim(self)
        self.loop = asyncio.new_event_loop()

        def inline(_executor, func, *args):
            fut = self.loop.create_future()
            try:
                fut.set_result(func(*args))
            except Exception as exc:  # pylint: disable=broad-except
                fut.set_exception(exc)
            return fut

        self.loop.run_in_executor = inline
        self.transport = drive.RecTransport()
        self.gw = mysensors.BaseAsyncGateway(self.transport, persistence=True, persistence_file=path, protocol_version=version)
        self.escaped = None
        self.loop.set_exception_handler(lambda loop, ctx: None)

    def _spin(self):
        for _ in range(4):
            self.loop.run_until_complete(asyncio.sleep(0))

    def _task(self):
        for t in asyncio.all_tasks(self.loop):
            if "save_on_schedule" in repr(t.get_coro()):
                return t
        return None

    def start(self):
        self.loop.run_until_complete(self.gw.start_persistence())
        self.save_task = self._task()
        self._spin()  # first save happens when the task first runs

    def line(self, text):
        step = drive.Step()
        try:
            self.gw.tasks.add_job(self.gw.logic, text)
        except Exception as exc:  # pylint: disable=broad-except
            step.exc = exc
        return step

    def attempt(self):
        if self.save_task is None or self.save_task.done() or not self.sleepers:
            return "not-armed"
        _, fut = self.sleepers.pop(0)
        fut.set_result(None)
        self._spin()
        if self.save_task.done() and not self.save_task.cancelled() and self.save_task.exception() is not None:
            return self.save_task.exception()
        return None

    def armed(self):
        return self.save_task is not None and not self.save_task.done() and bool(self.sleepers)

    def close(self):
        try:
            if self.save_task is not None and not self.save_task.done():
                self.save_task.cancel()
                self._spin()
        finally:
            self._task_mod.asyncio = self._saved
            self.loop.close()


def make(flavour, version, path):
    return Threaded(version, path) if flavour == "threaded" else Asyncio(version, path)


# -- concurrent-message injection ------------------------------------------------------------


class Injector:
    """At the k-th call of the serialisation hooks a line is processed by the gateway."""

    def __init__(self, life, k, line):
        self.life, self.k, self.line = life, k, line
        self.calls = 0
        self.fired = False

    def __enter__(self):
        import mysensors.persistence as pmod
        import mysensors.sensor as smod

        self._pmod, self._smod = pmod, smod
        self._default = pmod.MySensorsJSONEncoder.default
        self._getstate = smod.Sensor.__getstate__
        self._child_had = "__getstate__" in smod.ChildSensor.__dict__
        self._child_getstate = smod.ChildSensor.__dict__.get("__getstate__")
        inj = self

        def default(enc, o):
            inj.hit()
            return inj._default(enc, o)

        def getstate(sensor):
            inj.hit()
            return inj._getstate(sensor)

        def child_getstate(child):
            # pickle reaches the children while it iterates the node's dicts
            inj.hit()
            if inj._child_getstate is not None:
                return inj._child_getstate(child)
            return dict(child.__dict__)

        pmod.MySensorsJSONEncoder.default = default
        smod.Sensor.__getstate__ = getstate
        smod.ChildSensor.__getstate__ = child_getstate
        return self

    def hit(self):
        if self.calls == self.k and not self.fired:
            self.fired = True
            self.before = drive.typed(drive.projection(self.life.gw))
            self.life.gw.logic(self.line)  # what the pump thread would do at this very moment
            self.after = drive.typed(drive.projection(self.life.gw))
        self.calls += 1

    def __exit__(self, *exc):
        self._pmod.MySensorsJSONEncoder.default = self._default
        self._smod.Sensor.__getstate__ = self._getstate
        if self._child_had:
            self._smod.ChildSensor.__getstate__ = self._child_getstate
        else:
            del self._smod.ChildSensor.__getstate__
        return False


# -- one scenario ----------------------------------------------------------------------------------


def scenario(case, fault, stats=None, tmp=None):
    cwd = os.getcwd()
    try:
        return _scenario(case, fault, stats, tmp)
    finally:
        os.chdir(cwd)


def _scenario(case, fault, stats=None, tmp=None):
    """fault: ('oserror', k) | ('denied', k) | ('concurrent', k, line) | ('none',). Returns #ops/#hook calls seen."""
    version, ext, flavour = case["version"], case["ext"], case["flavour"]
    path = os.path.join(tmp, f"net.{ext}")
    persist.restore(tmp, {})
    if case.get("shape") == "bare":
        # the application names the file relative to its working directory (the README does)
        os.chdir(tmp)
        path = f"net.{ext}"
    life = make(flavour, version, path)
    where = f"[{flavour}, {ext}, fault={fault}]"
    full_case = dict(case, fault=list(fault))
    try:
        for text in case["state"]:
            life.line(text)
        life.start()  # initial save
        s_saved = drive.typed(drive.projection(persist.fresh_load(version, path).gw))
        if s_saved != drive.typed(drive.projection(life.gw)):
            raise Violation(f"initial_save_wrong.{ext}", full_case, f"{where}: start_persistence did not save the current state")
        life.line(case["change1"])
        # ---- the faulty attempt
        candidates = [s_saved, drive.typed(drive.projection(life.gw))]
        count = 0
        if fault[0] in ("oserror", "outage"):
            plan = faultfs.FaultPlan(fault[1], "fail" if fault[0] == "oserror" else "fail_from", errno_=(5, 13, 28, 30)[(fault[1] + len(case["state"])) % 4])
            with faultfs.Layer(plan) as layer:
                escaped = life.attempt()
            count = len(layer.trace)
            fired = plan.fired
        elif fault[0] == "denied":
            with faultfs.Layer(deny_access={fault[1]}) as layer:
                escaped = life.attempt()
            count = layer.access_calls
            fired = layer.denied
        elif fault[0] == "concurrent":
            with Injector(life, fault[1], fault[2]) as inj:
                escaped = life.attempt()
            count = inj.calls
            fired = inj.fired
            if fired:
                candidates += [inj.before, inj.after]
        else:
            with faultfs.Layer() as layer:
                escaped = life.attempt()
            count = len(layer.trace)
            fired = True
            case["_access_calls"] = layer.access_calls
        if escaped == "not-armed":
            raise Violation(f"no_attempt_armed.{flavour}", full_case, f"{where}: no scheduled save was armed after start_persistence")
        if not fired:
            return count, False
        current = drive.typed(drive.projection(life.gw))
        on_disk = load_or_violation(version, path, full_case, where, "after the faulty attempt")
        if on_disk not in candidates:
            raise Violation(f"partial_state_on_disk.{ext}", full_case, f"{where}: after the faulty attempt the file holds a state that never existed: {first_diff(current, on_disk)}")
        if escaped is not None and not life.armed():
            raise Violation(
                f"schedule_dies.{flavour}", full_case,
                f"{where}: {type(escaped).__name__}({escaped}) escaped the scheduled save and no further attempt is armed",
            )
        if escaped is not None and stats is not None:
            stats.label("exception-escaped-but-schedule-alive")
        if not life.armed():
            raise Violation(f"schedule_stops.{flavour}", full_case, f"{where}: after the faulty attempt no further save is scheduled")
        pers = life.gw.tasks.persistence
        if not pers.need_save and on_disk != current:
            raise Violation(
                f"stale_file_marked_saved.{ext}", full_case,
                f"{where}: the state is no longer marked unsaved but the file lacks the current state: {first_diff(current, on_disk)}",
            )
        # ---- heal: state change (or none at all: the retry alone must persist what the failed attempt could not), clean attempt
        if case["change2"] != "NONE":
            life.line(case["change2"])
        escaped = life.attempt()
        if escaped is not None:
            raise Violation(f"clean_attempt_fails.{flavour}", full_case, f"{where}: the next fault-free attempt raised/was not armed: {escaped!r}")
        current = drive.typed(drive.projection(life.gw))
        on_disk = load_or_violation(version, path, full_case, where, "after the clean attempt")
        if on_disk != current:
            raise Violation(f"not_healed.{ext}", full_case, f"{where}: after the next successful attempt the file is not the then-current state: {first_diff(current, on_disk)}")
        if not life.armed():
            raise Violation(f"schedule_stops.{flavour}", full_case, f"{where}: schedule not re-armed after the clean attempt")
        return count, True
    finally:
        life.close()


def scenario_initial(case, k, stats=None, tmp=None):
    """The faulty attempt is the FIRST save of a new process: a previous run left a good file, and next to it an
    older backup survived from an interrupted save before that. start_persistence() loads the file and saves at
    once; operation k of that save fails. The good file must still be what a restart loads."""
    cwd = os.getcwd()
    try:
        version, ext, flavour = case["version"], case["ext"], case["flavour"]
        path = os.path.join(tmp, f"net.{ext}")
        persist.restore(tmp, {})
        where = f"[{flavour}, {ext}, first save of a new process, stale backup present, fault=('oserror', {k})]"
        full_case = dict(case, fault=["initial", k])
        # an older run, then the last run of the previous process (their files: stale backup, good main)
        with persist.TimerPatch() as fake:
            old = persist.Lifetime(fake, version, path)
            for text in case["state"][:2]:
                old.driver.line(text)
            old.stop()
            stale = open(path, "rb").read()
            os.remove(path)
            last = persist.Lifetime(fake, version, path)
            for text in case["state"]:
                last.driver.line(text)
            last.stop()
        s_prev = drive.typed(drive.projection(persist.fresh_load(version, path).gw))
        with open(path + ".bak", "wb") as fh:
            fh.write(stale)
        life = make(flavour, version, path)
        try:
            plan = faultfs.FaultPlan(k, "fail")
            with faultfs.Layer(plan) as layer:
                try:
                    life.start()
                except OSError as exc:
                    # the injected failure may reach the caller of start_persistence(); what matters (as for a
                    # scheduled attempt) is that the schedule lives on - checked below
                    if "injected failure" not in str(exc):
                        raise Violation(f"start_raises.{flavour}", full_case, f"{where}: start_persistence raised {type(exc).__name__}: {exc}") from exc
                    if flavour == "asyncio":
                        life.save_task = life._task()  # pylint: disable=protected-access
                except Exception as exc:  # pylint: disable=broad-except
                    raise Violation(f"start_raises.{flavour}", full_case, f"{where}: start_persistence raised {type(exc).__name__}: {exc}") from exc
            if not plan.fired:
                return len(layer.trace), False
            on_disk = load_or_violation(version, path, full_case, where, "after the faulty first save")
            current = drive.typed(drive.projection(life.gw))
            if on_disk not in (s_prev, current):
                raise Violation(f"partial_state_on_disk.{ext}", full_case, f"{where}: a restart would load a state that is neither the last saved nor the current one: {first_diff(s_prev, on_disk)}")
            if not life.armed():
                raise Violation(f"schedule_stops.{flavour}", full_case, f"{where}: after the faulty first save no further save is scheduled")
            if case["change2"] != "NONE":
                life.line(case["change2"])
            escaped = life.attempt()
            if escaped is not None:
                raise Violation(f"clean_attempt_fails.{flavour}", full_case, f"{where}: the next fault-free attempt raised/was not armed: {escaped!r}")
            current = drive.typed(drive.projection(life.gw))
            on_disk = load_or_violation(version, path, full_case, where, "after the clean attempt")
            if on_disk != current:
                raise Violation(f"not_healed.{ext}", full_case, f"{where}: after the next successful attempt the file is not the then-current state: {first_diff(current, on_disk)}")
            return len(layer.trace), True
        finally:
            life.close()
    finally:
        os.chdir(cwd)


def load_or_violation(version, path, case, where, when):
    try:
        return drive.typed(drive.projection(persist.fresh_load(version, path).gw))
    except Exception as exc:  # pylint: disable=broad-except
        raise Violation("file_unloadable", case, f"{where}: {when} the file does not load: {exc!r}") from exc


def check_case(case, stats=None, only=None, collect=None):
    with persist.Scratch() as tmp:
        def run(fault):
            try:
                res = scenario(case, fault, stats, tmp)
            except Violation as v:
                if collect is None:
                    raise
                if len(collect) < 25:
                    collect.append(v)
                return 0, True
            return res

        def run_initial(k):
            try:
                return scenario_initial(case, k, stats, tmp)
            except Violation as v:
                if collect is None:
                    raise
                if len(collect) < 25:
                    collect.append(v)
                return 0, True

        if only is not None:
            if only[0] == "initial":
                run_initial(only[1])
            else:
                run(tuple(only))
            return
        n_ops, _ = run(("none",))
        if stats is not None:
            stats.case(None, labels=("clean",))
        key = common.chash([case["state"], case["ext"], case["flavour"], case["version"]])
        for k in range(n_ops):
            _, fired = run(("oserror", k))
            if stats is not None and fired:
                stats.case(f"{key}:os:{k}" if 0 < k < n_ops - 1 else None,
                           {"flavour": case["flavour"], "ext": case["ext"], "fault": ["oserror", k], "of": n_ops} if k % 23 == 0 else None,
                           labels=(case["flavour"], case["ext"], "oserror"))
        for k in range(n_ops):
            # the storage is gone for the rest of the attempt (every operation from k on fails, also the clean-up)
            _, fired = run(("outage", k))
            if stats is not None and fired:
                stats.case(f"{key}:out:{k}" if 0 < k < n_ops - 1 else None,
                           {"flavour": case["flavour"], "ext": case["ext"], "fault": ["outage", k], "of": n_ops} if k % 23 == 0 else None,
                           labels=(case["flavour"], case["ext"], "outage"))
        for k in range(case.pop("_access_calls", 0)):
            _, fired = run(("denied", k))
            if stats is not None and fired:
                stats.case(f"{key}:denied:{k}", {"flavour": case["flavour"], "ext": case["ext"], "fault": ["denied", k]}, labels=(case["flavour"], case["ext"], "permission-denied"))
        if case.get("shape") != "bare":
            n_first, _ = run_initial(10 ** 6)  # no fault: just count the operations of the first save
            for k in range(n_first):
                _, fired = run_initial(k)
                if stats is not None and fired:
                    stats.case(f"{key}:initial:{k}", {"flavour": case["flavour"], "ext": case["ext"], "fault": ["initial", k]} if k % 29 == 0 else None, labels=(case["flavour"], case["ext"], "first-save-with-stale-backup"))
        for line in CONCURRENT + ([case["wake"]] if case.get("wake") else []):
            k = 0
            while True:
                calls, fired = run(("concurrent", k, line))
                if not fired:
                    break
                if stats is not None:
                    stats.case(f"{key}:cc:{k}:{line}" if k > 0 else None,
                               {"flavour": case["flavour"], "ext": case["ext"], "fault": ["concurrent", k, line]} if k % 5 == 1 else None,
                               labels=(case["flavour"], case["ext"], "concurrent"))
                k += 1
                if k > 200:
                    break


def _one(case):
    common.setup_path()
    stats = common.Stats()
    found = []
    check_case(case, stats, collect=found)
    for v in found:
        stats.violation(v.clause, v.case, v.detail)
    return stats


def draw_cases(n, seed_value):
    out = []
    common.run_given(common.Stats(), cases(), out.append, n, seed_value, shrink=False)
    # always one state per flavour whose JSON serialisation shrinks between the failed and the next attempt
    for flavour in ("threaded", "asyncio"):
        if out and not any(c["ext"] == "json" and c["flavour"] == flavour and c["change2"].endswith(";11;s") for c in out):
            base = dict(out[0], ext="json", flavour=flavour)
            nid0 = int(base["state"][0].split(";")[0])
            base["state"] = list(base["state"]) + [f"{nid0};255;3;0;11;{'a very long sketch name ' * 6}"]
            base["change2"] = f"{nid0};255;3;0;11;s"
            out.append(base)
    for flavour in ("threaded", "asyncio"):
        if out and not any(c["ext"] == "pickle" and c["flavour"] == flavour and c.get("wake") for c in out):
            out.append(make_sleepy(dict(out[-1], ext="pickle", flavour=flavour)))
    if out and not any(c["change2"] == "NONE" for c in out):
        out.append(dict(out[0], change2="NONE", change1="5;255;0;0;17;2.0"))
    for flavour in ("threaded", "asyncio"):
        if out and not any(c["change2"] == "NONE" and c["flavour"] == flavour for c in out):
            out.append(dict(out[0], change2="NONE", change1="5;255;0;0;17;2.0", flavour=flavour))
    if out and not any(c.get("shape") == "bare" for c in out):
        out.append(dict(out[0], shape="bare"))
    have = {(c["ext"], c["flavour"]) for c in out}
    for ext in ("json", "pickle"):
        for flavour in ("threaded", "asyncio"):
            if (ext, flavour) not in have and out:
                out.append(dict(out[len(have) % len(out)], ext=ext, flavour=flavour))
                have.add((ext, flavour))
    return out


def main(tier):
    run = common.Run(PROP, tier, "fault_enumeration", RULE, exhaustive=True,
                     assumptions=["exhaustive = every file operation of the faulty save and every serialisation-hook call as injection point, per generated state",
                                  "a concurrent message is modelled as the pump processing one line at a serialisation-hook boundary (Python-level granularity)",
                                  "asyncio flavour: loop.run_in_executor replaced by an inline executor; sleep resolved by the harness"])
    for path in sorted(glob.glob(os.path.join(common.REPLAY_DIR, f"{PROP}-*.json"))):
        body = json.load(open(path, encoding="utf-8"))
        c = body["case"]
        try:
            check_case(c, run.stats, only=c.get("fault"))
            run.stats.case(None, labels=("regression-replays",))
        except Violation as v:
            run.stats.violation(v.clause, v.case, f"[regression {os.path.basename(path)}] {v.detail}")
    n = 8 if tier == "quick" else 320
    todo = draw_cases(n, common.shard_seed(common.seed(), 0))
    for stats in common.pool_map(_one, todo):
        run.stats.merge(stats)
    run.extra["states"] = len(todo)
    return run.finish()


def replay(path):
    common.setup_path()
    body = json.load(open(path, encoding="utf-8"))
    c = body["case"]
    try:
        check_case(c, only=c.get("fault"))
    except Violation as v:
        print(f"VIOLATION property={PROP} replay={path}")
        print(f"  clause={v.clause} detail={v.detail}")
        return 1
    print(f"{PROP} replay {path}: holds")
    return 0
