"""C04 - network state mirrors what the nodes reported; callbacks are exact."""
from vf.histcheck import HistoryCheck

RULE = (
    "Hypothesis-generated, state-aware histories (<= 30 ops: valid frames of every handler kind, "
    "near-valid frames with one field over a boundary, raw garbage, controller set-value calls, firmware "
    "updates, metric/clock toggles, a callback that raises at chosen steps) over 5 versions x {sync, async} "
    "run in lock-step with the reference model; after EVERY step the node/child/value projection (with "
    "Python types) and the callback log (count, fields, state seen from inside the callback) are compared. "
    "Non-trivial = (>= 2 nodes, or a re-presentation, or a value for a child before its presentation) AND "
    "(>= 1 callback-raising step or >= 1 rejected line); distinct by hash of the history."
)


def nontrivial(case, sess):
    nodes = sess.model.nodes
    lines = [op for op in case["ops"] if op["op"] == "line"]
    seen, repres = set(), False
    for op in lines:
        parts = op["text"].split(";")
        if len(parts) == 6 and parts[2] == "0":
            key = (parts[0], parts[1])
            if key in seen:
                repres = True
            seen.add(key)
    rich = len(nodes) >= 2 or repres
    stress = any(op["op"] == "cb_raise" and op["value"] for op in case["ops"]) or any(
        op["op"] == "line" and not _accepted(case["version"], op["text"]) for op in case["ops"]
    )
    return rich and stress and "aborted" not in sess.labels


def _accepted(version, text):
    from vf.ref import codec, validate

    try:
        return validate.validate(version, codec.decode(text)) is True
    except codec.Malformed:
        return False


CHECK = HistoryCheck(
    "C04", {"state", "callback"}, RULE, dict(max_ops=30, op_weights=dict(save=3)), nontrivial,
    quick=(16, 160), thorough=(16, 2500),
    assumptions=[
        "reference model vf/ref/model.py is the oracle; frames whose validity the statement does not pin are excluded by construction",
        "callback exactness: exactly once when the projection changed, at most once otherwise, zero for rejected lines",
    ],
)
main = CHECK.main
replay = CHECK.replay
