"""Shared driver for the history-based checks (C04 C05 C07 C08 C10): shards a Hypothesis
search over vf.gen.histories through vf.lockstep with the families a property owns."""
import glob
import json
import os

from vf import common, gen, lockstep
from vf.common import Violation


def _worker(args):
    import importlib

    prop, seed_value, n = args
    check = importlib.import_module(f"vf.checks.{prop.lower()}").CHECK
    return check._shard((seed_value, n))


class HistoryCheck:
    def __init__(self, prop, families, rule, gen_kwargs, nontrivial, quick=(8, 60), thorough=(16, 2000),
                 level="exploration", assumptions=(), technique_note="", extra_phase=None):
        self.prop = prop
        self.families = set(families)
        self.rule = rule
        self.gen_kwargs = gen_kwargs
        self.nontrivial = nontrivial  # f(case, session) -> key or None
        self.quick = quick
        self.thorough = thorough
        self.level = level
        self.assumptions = list(assumptions)
        self.extra_phase = extra_phase

    # one case -------------------------------------------------------------
    def check_case(self, case, stats=None):
        sess = lockstep.run_history(case, self.families, stats)
        if stats is not None:
            key = self.nontrivial(case, sess)
            stats.case(
                common.chash(case) if key else None,
                {"version": case["version"], "flavour": case.get("flavour"), "ops": case["ops"][:12], "n_ops": len(case["ops"]), "labels": sorted(sess.labels)},
                labels=sorted(sess.labels),
            )
        return sess

    def minimise(self, violation):
        """ddmin over the op list of a failing history (Hypothesis' shrinker is capped)."""
        case = violation.case
        clause = violation.clause

        def fails(ops):
            try:
                lockstep.run_history(dict(case, ops=ops), self.families)
            except Violation as v:
                return v.clause == clause
            except Exception:  # pylint: disable=broad-except
                return False
            return False

        ops = common.ddmin(case["ops"], fails)
        small = dict(case, ops=ops)
        try:
            lockstep.run_history(small, self.families)
        except Violation as v:
            return v
        return violation

    def _shard(self, args):
        seed_value, n = args
        common.setup_path()
        stats = common.Stats()
        strategy = gen.histories(**self.gen_kwargs)
        try:
            common.run_given(stats, strategy, lambda c: self.check_case(c, stats), n, seed_value, shrink=False)
        except common.HarnessError:
            raise
        # minimise what was found
        mini = []
        for v in stats.violations:
            vv = self.minimise(Violation(v["clause"], v["case"], v["detail"]))
            mini.append({"clause": vv.clause, "case": vv.case, "detail": vv.detail})
        stats.violations = mini
        return stats

    def regression(self, run):
        for path in sorted(glob.glob(os.path.join(common.REPLAY_DIR, f"{self.prop}-*.json"))):
            body = json.load(open(path, encoding="utf-8"))
            try:
                self.check_case(body["case"], run.stats)
                run.stats.label("regression-replays")
            except Violation as v:
                run.stats.violation(v.clause, v.case, f"[regression {os.path.basename(path)}] {v.detail}")

    def main(self, tier):
        run = common.Run(self.prop, tier, self.level, self.rule, assumptions=self.assumptions)
        self.regression(run)
        shards, n = self.quick if tier == "quick" else self.thorough
        jobs = [(self.prop, common.shard_seed(common.seed(), i), n) for i in range(shards)]
        for stats in common.pool_map(_worker, jobs):
            run.stats.merge(stats)
        if self.extra_phase is not None:
            self.extra_phase(run, tier)
        return run.finish()

    def replay(self, path):
        common.setup_path()
        body = json.load(open(path, encoding="utf-8"))
        try:
            self.check_case(body["case"])
        except Violation as v:
            print(f"VIOLATION property={self.prop} replay={path}")
            print(f"  clause={v.clause} detail={v.detail}")
            return 1
        print(f"{self.prop} replay {path}: holds")
        return 0
