"""C09 - OTA serves exactly the firmware it advertised."""
import glob
import json
import os
import random
import tempfile

from hypothesis import strategies as st

from vf import common, drive, ihex, lockstep
from vf.common import Violation
from vf.ref import codec
from vf.ref import ota as O

PROP = "C09"
RULE = (
    "Image lengths: quick = every length within +-2 of every multiple of 16 up to 1024 and of every multiple of "
    "128 up to 32768, plus Hypothesis-drawn lengths; thorough = EVERY length 1..32768. Contents from a drawn PRNG "
    "seed (random, all-0x00, all-0xFF, last byte 0xFF); firmware type/version from {0, 1, 255, 256, 65535} and "
    "drawn; 1-3 updating nodes; block request order: ascending, descending, shuffled, with repetitions, interleaved "
    "across nodes. Everything is judged FROM THE WIRE: the config response is parsed with an own little-endian "
    "parser (type, version, B, C); blocks 0..B-1 are fetched (all blocks for boundary lengths and images <= 4 KiB; "
    "first/last/sampled blocks otherwise), each must echo type/version/index and carry 16 bytes; the concatenation R "
    "must satisfy len(R) = 16*B, multiple of 128, R[:len(img)] = img, rest 0xFF and at most one page, "
    "CRC-16/MODBUS(R) = C (own table-driven CRC, checked against 0x4B37); an index >= B yields nothing or an empty "
    "block; an Intel-HEX file written by an own writer (drawn record lengths, start address, case, optional type-04 "
    "record) loads to exactly its bytes; nodes that report the offered image itself or erased flash as what they run. Non-trivial = length not a multiple of 128, or >= 2 nodes, or a "
    "non-monotone request order; distinct by (length, content class, order class, nodes)."
)

FW_IDS = [(0, 0), (1, 1), (255, 1), (256, 2), (65535, 65535), (10, 2)]


def boundary_lengths():
    out = set()
    for m in range(0, 1024 + 1, 16):
        for d in (-2, -1, 0, 1, 2):
            out.add(m + d)
    for m in range(0, 32768 + 1, 128):
        for d in (-2, -1, 0, 1, 2):
            out.add(m + d)
    return sorted(n for n in out if 1 <= n <= 32768)


def fetch(drv, nid, payload_hex, sub):
    step = drv.line(f"{nid};255;4;0;{sub};{payload_hex}")
    if step.exc is not None:
        raise Violation(f"ota_request_raises.{type(step.exc).__name__}", None, f"firmware request raised {step.exc!r}")
    return [codec.decode(s) for s in step.sent]


def check_case(case, stats=None):
    keep = []
    try:
        return _check_case(case, stats, keep)
    finally:
        for path in keep:
            if os.path.exists(path):
                os.remove(path)


FIXED_MTIME = 1_600_000_000  # a reproducible build stamps its output with a fixed time


def _check_case(case, stats, keep):
    """case = {version, len, seed, fill, fw, nodes, order, order_seed, full, via_hex, hexopts}"""
    version = case["version"]
    image = lockstep.image_bytes({"len": case["len"], "seed": case["seed"], "fill": case["fill"]})
    fw = tuple(case["fw"])
    nodes = case["nodes"]
    drv = drive.Driver(version, case.get("flavour", "sync"))
    for nid in nodes:
        drv.line(f"{nid};255;0;0;17;2.0")
    if case.get("sleepy"):
        # the nodes take part in smart sleep: firmware responses are the one kind of traffic that is not withheld
        from vf.ref import tables as T

        wake = T.wake_sub(version)
        for nid in nodes:
            drv.line(f"{nid};1;0;0;6;t")
            if wake is not None:
                drv.line(f"{nid};255;3;0;{wake};7")
    where = f"[len={case['len']} fill={case['fill']} fw={fw} nodes={nodes} order={case['order']} v{version}]"

    def fail(clause, detail):
        raise Violation(clause, case, f"{where}: {detail}")

    if case.get("via_hex"):
        opts = case.get("hexopts", {})
        fd, path = tempfile.mkstemp(suffix=".hex", prefix="vf_c09_")
        try:
            with os.fdopen(fd, "w", encoding="utf-8") as fh:
                fh.write(ihex.dump(image, start=opts.get("start", 0), upper=opts.get("upper", True),
                                   ext_record=opts.get("ext", False), lengths=opts.get("lengths"), skip_blank=opts.get("skip_blank", False)))
            from mysensors.ota import load_fw

            loaded = load_fw(path)
            if loaded != image:
                fail("intel_hex_load", f"load_fw returned {None if loaded is None else len(loaded)} bytes, differing from the {len(image)} encoded bytes at offset {_first_diff(loaded or b'', image)}")
            os.utime(path, (FIXED_MTIME, FIXED_MTIME))
            step = drv.update_fw(nodes, fw[0], fw[1], path=path)
        finally:
            keep.append(path)
    else:
        step = drv.update_fw(nodes, fw[0], fw[1], image=image)
    if step.exc is not None or step.call_exc is not None:
        fail("update_call_raises", f"update_fw raised {step.exc or step.call_exc!r}")
    # config responses (one per node)
    blocks = crc = None
    for nid in nodes:
        replies = fetch(drv, nid, O.words_hex(9, 9, 1, 0xABCD, 0x0102), 0)
        if len(replies) != 1 or replies[0][:3] != (nid, 255, 4) or replies[0][4] != 1:
            fail("config_response_missing", f"config request of node {nid} answered with {replies}")
        try:
            b, c = O.check_config(image, fw, replies[0][5])
        except ValueError as exc:
            fail("config_response_wrong", str(exc))
        if blocks is not None and (b, c) != (blocks, crc):
            fail("config_response_differs_between_nodes", f"{(b, c)} vs {(blocks, crc)}")
        blocks, crc = b, c
        if case.get("reports"):
            # what the node says it is running is the node's business: a node that reports exactly the image it is
            # being offered (a forced re-flash, a flash that went bad) or erased flash is answered like any other
            words = (fw[0], fw[1], b, c, 0x0102) if case["reports"] == "same" else (0xFFFF, 0xFFFF, 0xFFFF, 0xFFFF, 0x0102)
            replies = fetch(drv, nid, O.words_hex(*words), 0)
            if len(replies) != 1 or replies[0][:3] != (nid, 255, 4) or replies[0][4] != 1:
                fail("config_response_missing", f"config request of node {nid} reporting {words[:4]} answered with {replies}")
            try:
                again = O.check_config(image, fw, replies[0][5])
            except ValueError as exc:
                fail("config_response_wrong", f"to a node reporting {words[:4]}: {exc}")
            if again != (b, c):
                fail("config_response_differs_between_nodes", f"to a node reporting {words[:4]}: {again} vs {(b, c)}")
    if case.get("reissue"):
        # the update is issued again WITHOUT an image (another node joins, or the call is simply repeated in the
        # middle of a download): the firmware stored for this type / version stays what it is
        for _ in range(case["reissue"]):
            step = drv.update_fw(nodes, fw[0], fw[1])
            if step.exc is not None or step.call_exc is not None:
                fail("update_call_raises", f"re-issued update_fw without an image raised {step.exc or step.call_exc!r}")
        for nid in nodes:  # the new call restarts every node's session from the config step
            replies = fetch(drv, nid, O.words_hex(9, 9, 1, 0xABCD, 0x0102), 0)
            if len(replies) != 1:
                fail("config_response_missing", f"after re-issuing the update without an image: {replies}")
            try:
                again = O.check_config(image, fw, replies[0][5])
            except ValueError as exc:
                fail("config_response_wrong", f"after re-issuing the update without an image: {exc}")
            if again != (blocks, crc):
                fail("config_response_differs_between_nodes", f"after re-issuing the update without an image: {again} vs {(blocks, crc)}")
    # which blocks to fetch
    if case["full"]:
        wanted = list(range(blocks))
    else:
        rnd = random.Random(case["order_seed"])
        wanted = sorted(set(list(range(min(3, blocks))) + list(range(max(0, blocks - 18), blocks)) + [rnd.randrange(blocks) for _ in range(10)]))
    order = list(wanted)
    rnd = random.Random(case["order_seed"])
    if case["order"] == "desc":
        order.reverse()
    elif case["order"] == "shuffled":
        rnd.shuffle(order)
    elif case["order"] == "repeats":
        order = order + [rnd.choice(order) for _ in range(min(40, len(order)))]
        rnd.shuffle(order)
    served = {}
    for i, blk in enumerate(order):
        nid = nodes[i % len(nodes)] if case["order"] != "asc" or len(nodes) > 1 else nodes[0]
        replies = fetch(drv, nid, O.words_hex(fw[0], fw[1], blk), 2)
        if len(replies) != 1 or replies[0][:3] != (nid, 255, 4) or replies[0][4] != 3:
            fail("block_response_missing", f"block {blk} requested by node {nid}: got {replies}")
        try:
            data = O.check_block(image, fw, blk, replies[0][5], blocks)
        except ValueError as exc:
            fail("block_response_wrong", str(exc))
        if len(data) != 16:
            fail("block_not_16_bytes", f"block {blk} < B={blocks} carried {len(data)} bytes")
        if blk in served and served[blk] != data:
            fail("block_changes_between_requests", f"block {blk} served as {served[blk].hex()} and as {data.hex()}")
        served[blk] = data
    if case["full"]:
        whole = b"".join(served[i] for i in range(blocks))
        if len(whole) != 16 * blocks or len(whole) % 128 or whole[: len(image)] != image or set(whole[len(image):]) - {0xFF} or len(whole) - len(image) > 128:
            fail("concatenation_wrong", f"{len(whole)} bytes served for an image of {len(image)}")
        if O.crc16_modbus(whole) != crc:
            fail("crc_mismatch", f"CRC-16/MODBUS of the served bytes {O.crc16_modbus(whole):#06x} != advertised {crc:#06x}")
    # a block request names the firmware it wants: with a second image stored for another node, a
    # request for THAT firmware must be answered with its bytes and its (type, version) - or not at all
    if case.get("second"):
        fw2 = (fw[0] ^ 1, (fw[1] + 1) % 65536)
        image2 = lockstep.image_bytes({"len": case["second"], "seed": case["seed"] + 1, "fill": "random"})
        drv.line("200;255;0;0;17;2.0")
        drv.update_fw([200], fw2[0], fw2[1], image=image2)
        total2 = O.allowed_paddings(len(image2))
        for blk in (0, max(0, len(image2) // 16 - 1)):
            replies = fetch(drv, nodes[0], O.words_hex(fw2[0], fw2[1], blk), 2)
            for rep in replies:
                if rep[2] == 4 and rep[4] == 3:
                    try:
                        O.check_block(image2, fw2, blk, rep[5])
                    except ValueError as exc:
                        fail("block_of_other_firmware_wrong", f"node {nodes[0]} (scheduled {fw}) asked for block {blk} of firmware {fw2}: {exc}")
        del total2
        # and the scheduled firmware is still served unchanged afterwards
        replies = fetch(drv, nodes[0], O.words_hex(fw[0], fw[1], 0), 2)
        if len(replies) != 1:
            fail("block_response_missing", f"block 0 after a request for another firmware: {replies}")
        try:
            O.check_block(image, fw, 0, replies[0][5], blocks)
        except ValueError as exc:
            fail("block_response_wrong", f"after a request for another firmware: {exc}")
    # a rebuilt image uploaded under the SAME type/version replaces the old one completely
    if case.get("reupload"):
        image3 = lockstep.image_bytes({"len": case["reupload"], "seed": case["seed"] + 7, "fill": "random"})
        kind = case.get("reupload_kind", "random")
        # images RELATED to the one stored: a prefix of it, it without its blank tail, it plus more, it with
        # one byte changed, the very same again
        if kind == "prefix" and len(image) > 1:
            image3 = image[: max(1, case["reupload"] % len(image))]
        elif kind == "strip_ff":
            image3 = image.rstrip(b"\xff") or image[:1]
        elif kind == "extend":
            image3 = image + image3
        elif kind == "one_byte":
            pos = case["reupload"] % len(image)
            image3 = image[:pos] + bytes([image[pos] ^ 0x5A]) + image[pos + 1:]
        elif kind == "same":
            image3 = image
        image3 = image3[:8192]
        if case.get("via_hex") and keep:
            # the rebuilt firmware is written to the SAME file, and carries the same time stamp
            opts = case.get("hexopts", {})
            with open(keep[0], "w", encoding="utf-8") as fh:  # same tool, same options: same layout, same length for a same-size image
                fh.write(ihex.dump(image3, start=opts.get("start", 0), upper=opts.get("upper", True), ext_record=opts.get("ext", False), lengths=opts.get("lengths"), skip_blank=opts.get("skip_blank", False)))
            os.utime(keep[0], (FIXED_MTIME, FIXED_MTIME))
            drv.update_fw(nodes, fw[0], fw[1], path=keep[0])
        else:
            drv.update_fw(nodes, fw[0], fw[1], image=image3)
        replies = fetch(drv, nodes[0], O.words_hex(1, 1, 1, 1, 1), 0)
        if len(replies) != 1:
            fail("config_response_missing", f"after a re-upload under the same type/version: {replies}")
        try:
            b3, c3 = O.check_config(image3, fw, replies[0][5])
        except ValueError as exc:
            fail("config_response_wrong", f"after a re-upload under the same type/version: {exc}")
        got = b""
        for blk in range(b3):
            rep = fetch(drv, nodes[0], O.words_hex(fw[0], fw[1], blk), 2)
            try:
                got += O.check_block(image3, fw, blk, rep[0][5], b3) if len(rep) == 1 else b""
            except ValueError as exc:
                fail("stale_image_served", f"after a re-upload under the same type/version: {exc}")
        if got[: len(image3)] != image3 or O.crc16_modbus(got) != c3:
            fail("stale_image_served", "after a re-upload under the same type/version the served bytes are not the new image")
        image, blocks, crc = image3, b3, c3
    # beyond the end
    for blk in (blocks, blocks + 1, blocks + 7, 65535):
        if blk > 65535:
            continue
        replies = fetch(drv, nodes[0], O.words_hex(fw[0], fw[1], blk), 2)
        for rep in replies:
            if rep[2] == 4 and rep[4] == 3:
                body = O.parse_hex_bytes(rep[5][12:]) if len(rep[5]) >= 12 else None
                if body is None or len(body) != 0:
                    fail("data_beyond_image", f"block {blk} >= B={blocks} served {rep[5]!r}")
    if stats is not None:
        nt = case["len"] % 128 != 0 or len(nodes) >= 2 or case["order"] != "asc"
        stats.case(
            f"{case['len']}:{case['fill']}:{case['order']}:{len(nodes)}:{int(bool(case.get('via_hex')))}" if nt else None,
            {k: case[k] for k in ("version", "len", "fill", "fw", "nodes", "order", "full")} if case["len"] % 97 == 3 else None,
            labels=("full" if case["full"] else "edges", case["order"], f"nodes{len(nodes)}", "hex" if case.get("via_hex") else "bin"),
        )


def _first_diff(a, b):
    for i, (x, y) in enumerate(zip(a, b)):
        if x != y:
            return i
    return min(len(a), len(b))


def make_case(length, rnd, full=None, via_hex=False):
    order = rnd.choice(["asc", "desc", "shuffled", "repeats"])
    nodes = rnd.sample([1, 2, 3, 7], rnd.choice([1, 1, 2, 3]))
    case = {
        "version": rnd.choice(["2.2", "2.2", "2.2", "2.1", "2.0", "1.5", "1.4"]),
        "len": length, "seed": rnd.randrange(10 ** 6), "fill": rnd.choice(["random", "random", "zero", "ff", "lastff", "gap"]),
        "fw": list(rnd.choice(FW_IDS)) if rnd.random() < 0.7 else [rnd.randrange(65536), rnd.randrange(65536)],
        "nodes": nodes, "order": order, "order_seed": rnd.randrange(10 ** 6),
        "full": (length <= 4096) if full is None else full,
        "flavour": rnd.choice(["sync", "async"]),
    }
    if rnd.random() < 0.3:
        case["second"] = rnd.choice([16, 100, 128, 300])
    if rnd.random() < 0.3:
        case["reissue"] = rnd.choice([1, 1, 2, 3])
    if rnd.random() < 0.25:
        case["sleepy"] = True
    if rnd.random() < 0.3:
        case["reupload"] = rnd.choice([16, 100, 129, 400, max(1, min(length, 2000) - 17), min(length, 2000) + 40])
        case["reupload_kind"] = rnd.choice(["random", "random", "prefix", "prefix", "strip_ff", "extend", "one_byte", "same"])
    if via_hex:
        case["via_hex"] = True
        if rnd.random() < 0.6:
            # rebuilt firmware written to the same file: same length is the interesting case
            case["reupload"] = rnd.choice([16, 100, 129, 400])
            case["reupload_kind"] = rnd.choice(["one_byte", "one_byte", "one_byte", "same", "prefix", "random"])
        case["hexopts"] = {
            "start": rnd.choice([0, 0, 0x100, 0x7000, rnd.randrange(0, 0x8000)]),
            "upper": rnd.random() < 0.5,
            "ext": rnd.random() < 0.3,
            "lengths": [rnd.randrange(1, 33) for _ in range(rnd.randrange(1, 6))],
            "skip_blank": rnd.random() < 0.5,  # erased regions are not in the file: address gaps
        }
        if case["hexopts"]["skip_blank"] and rnd.random() < 0.7:
            case["fill"] = "gap"
    if rnd.random() < 0.3:
        case["reports"] = rnd.choice(["same", "same", "blank"])
    return case


def _chunk(args):
    lengths, seed_value, hex_every = args
    common.setup_path()
    stats = common.Stats()
    rnd = random.Random(seed_value)
    for i, length in enumerate(lengths):
        case = make_case(length, rnd, via_hex=(hex_every and i % hex_every == 0 and length <= 8192))
        try:
            check_case(case, stats)
        except Violation as v:
            stats.violation(v.clause, case, v.detail)
            if len(stats.violations) > 10:
                break
    return stats


def drawn_lengths(n, seed_value):
    out = []
    common.run_given(common.Stats(), st.one_of(st.integers(1, 32768), st.integers(1, 2048), st.integers(1, 300)), out.append, n, seed_value, shrink=False)
    return out


def main(tier):
    run = common.Run(PROP, tier, "exploration", RULE, exhaustive=(tier == "thorough"),
                     assumptions=["judged from the wire only (own hex/LE parser, own CRC-16/MODBUS)", "exhaustive (thorough tier) refers to the image LENGTH 1..32768; contents, ids and request orders are drawn",
                                  "for images > 4 KiB outside the boundary set only the first 3, the last 18 and 10 random blocks are fetched; config response (B, C) is always fully checked against the recomputed padded image"])
    for path in sorted(glob.glob(os.path.join(common.REPLAY_DIR, f"{PROP}-*.json"))):
        body = json.load(open(path, encoding="utf-8"))
        try:
            check_case(body["case"], run.stats)
        except Violation as v:
            run.stats.violation(v.clause, v.case, f"[regression {os.path.basename(path)}] {v.detail}")
    base = common.seed()
    if tier == "quick":
        bl = boundary_lengths()
        small = [n for n in bl if n <= 4096]
        large = [n for n in bl if n > 4096]
        lengths = small + large + drawn_lengths(150, common.shard_seed(base, 0))
    else:
        lengths = list(range(1, 32769))
    rnd = random.Random(base)
    rnd.shuffle(lengths)
    n_jobs = 32 if tier == "quick" else 128
    jobs = [(lengths[i::n_jobs], common.shard_seed(base, i + 1), 7) for i in range(n_jobs)]
    for stats in common.pool_map(_chunk, jobs, procs=16):
        run.stats.merge(stats)
    run.extra["lengths_covered"] = len(set(lengths))
    return run.finish()


def replay(path):
    common.setup_path()
    body = json.load(open(path, encoding="utf-8"))
    try:
        check_case(body["case"])
    except Violation as v:
        print(f"VIOLATION property={PROP} replay={path}")
        print(f"  clause={v.clause} detail={v.detail}")
        return 1
    print(f"{PROP} replay {path}: holds")
    return 0
