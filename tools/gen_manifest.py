#!/venv/bin/python
"""Regenerate MANIFEST.json from the table below and validate it against the schema."""
import json
import os
import sys

HERE = os.path.dirname(os.path.dirname(os.path.abspath(__file__)))

# property -> (category, technique, level text, level note, design ref)
CHECKS = {
    "C02": (
        "exploration",
        "Hypothesis property-based round-trip / differential against an independent reference codec; atheris coverage-guided fuzzing of the decoder in the thorough tier",
        "Generated search (12k cases quick, 400k + 6e5 fuzz executions thorough) over header spellings, payload classes, field counts and copy subsets against a reference codec that does not use int()/split; finds codec asymmetries with high probability, proves nothing about absence.",
        "Trusted: vf/ref/codec.py (cross-checked against int() on 4e5 random spellings); digit strings below Python's 4300-digit limit.",
        "DESIGN.md §2 C02",
    ),
    "C03": (
        "exploration",
        "exhaustive enumeration of the finite header product + boundary-value payload corpora + Hypothesis payload generation, differential against a hand-written tri-state reference validator; exhaustive table laws",
        "The finite factor (version x command x sub-type x node/child/ack classes x conforming/violating exemplar, ~2.1e5 frames) is enumerated completely in both tiers; payload text per rule is a boundary corpus plus generated text (12k quick / 480k thorough). Both directions are compared (accepts-invalid and rejects-valid).",
        "Trusted: hand-written tables/validator in vf/ref (written from the serial API, not from const_*.py). Inputs whose verdict the statement does not pin are executed but not compared.",
        "DESIGN.md §2 C03",
    ),
    "C01": (
        "exploration",
        "Hypothesis state-aware history generation over 4 transports x 5 versions with a no-crash / no-effect oracle (tri-state reference validator + full state snapshot diff); thorough: real poll thread liveness probe and atheris coverage-guided op-sequence fuzzing",
        "Generated histories (2.5k quick / 48k thorough, <= 40 ops) mixing valid, near-valid, arbitrary-payload and raw lines with controller calls; every op is checked for escaping exceptions and every rejected line for zero effect on a full snapshot. Found F1,F2,F3,F5,F6 on the pinned tree.",
        "Trusted: reference validator decides 'invalid'; lines with unpinned verdict only need not crash. MQTT inbound text is mapped to topics by the harness (levels = first five fields).",
        "DESIGN.md §2 C01",
    ),
    "C04": (
        "exploration",
        "Hypothesis history generation run in lock-step with a reference model (model-based testing): projection and callback log compared after every step",
        "Generated histories (2.5k quick / 40k thorough) over 5 versions x sync/async; the node/child/value projection with Python types and the callback count/fields/in-callback state are compared with the reference model after every single step, with a raising callback injected at generated steps.",
        "Trusted: vf/ref/model.py. Callback exactness is required only where the statement pins it (exactly once iff the projection changed; at most once otherwise; zero for rejected lines).",
        "DESIGN.md §2 C04",
    ),
    "C05": (
        "exploration",
        "Hypothesis history generation in lock-step with a reference model prescribing the reply per step, plus independent re-decoding/re-validation of every emitted string; stubbed clock",
        "Per step the ordered transport log must equal the model's prescription (ack not compared; id response may be broadcast); every emitted line must be canonical and valid under the independent validator.",
        "Trusted: vf/ref/model.py, vf/ref/validate.py; mysensors.handler.time is replaced by a stub (localtime drawn; gmtime/time deliberately different).",
        "DESIGN.md §2 C05",
    ),
    "C07": (
        "exploration",
        "Hypothesis history generation (2.x, several nodes) with a history invariant over the transport log: destination sleeping => step is that node's wake-up; awake nodes answered in the causing step",
        "Every emitted command is attributed to the step in which it reached the transport; sleeping-ness comes from the reference model. 2.5k quick / 40k thorough histories, non-trivial when a sleeper is owed traffic while other nodes talk.",
        "Trusted: reference model's notion of 'sleeping'. Arrival orders are whatever the generator interleaves (one line per step, fully pumped).",
        "DESIGN.md §2 C07",
    ),
    "C08": (
        "exploration",
        "Hypothesis history generation in lock-step with a reference hold-queue/desired-value model; call-time refusal and non-vacuity clauses; generator built to reach version-dependent value types",
        "At every wake-up the burst must equal FIFO hold queue + one set per pending desired value of a reported type; desired values persist until reported; undeliverable values must be refused at call time; plainly valid calls must be accepted. Found F2,F3,F4 (and the node side of F13) on the pinned tree.",
        "Trusted: vf/ref/model.py; order among desired-value sets within one burst is not compared.",
        "DESIGN.md §2 C08",
    ),
    "C10": (
        "exploration",
        "Hypothesis history generation against a per-node reference session automaton with set-valued states (model-based), malformed firmware requests injected in every session state",
        "Every firmware request's reply is matched against the alternatives the automaton allows and the automaton is narrowed by what was observed; reboot rule checked on every set message; update through make_update and through update_fw(fw_path=Intel-HEX).",
        "Trusted: vf/ref/model.py + vf/ref/ota.py (own CRC). A block request for non-existent firmware may or may not start the fetching phase (both accepted).",
        "DESIGN.md §2 C10",
    ),
    "C06": (
        "exploration",
        "Hypothesis-generated operation sequences (id requests, presentations, traffic, save ticks, stop/restart) with a history invariant over all emitted id responses across gateway lifetimes",
        "Every id response of the whole history (all lifetimes on one persistence file, both formats) is checked for range, freshness against the nodes known at that moment and against every id handed out before. 1.9k quick / 12.8k thorough sequences. Found F8 on the pinned tree.",
        "Trusted: stop() is the clean stop; timer replaced by a harness-fired fake; a smarter allocator (gap filling) stays green.",
        "DESIGN.md §2 C06",
    ),
    "C11": (
        "exploration",
        "Hypothesis-generated reachable states with forced payload classes; round-trip oracle save->load in both formats on typed projections; differential json vs pickle",
        "States are reached through real histories (incl. transient desired values, hold queues, reboot flags, OTA sessions) and saved by stop(); a fresh gateway must load the identical typed projection, json and pickle must agree, and no transient state may come back.",
        "Trusted: projection covers the attributes the README documents (type, sketch, battery, version, heartbeat, children, descriptions, values).",
        "DESIGN.md §2 C11",
    ),
    "C14": (
        "exploration",
        "Hypothesis-generated histories with harness-fired periodic-save ticks at drawn positions, every handler kind as the last state change; round-trip oracle across stop()/fresh start",
        "Typed projection before stop() must equal the projection loaded by a fresh gateway; ticks are biased to fall right before the last state change so that a handler that forgets to mark the state unsaved is exposed. Found F8 on the pinned tree.",
        "Trusted: fake threading.Timer inside mysensors.task; real file system in a scratch directory.",
        "DESIGN.md §2 C14",
    ),
    "C12": (
        "fault_enumeration",
        "exhaustive crash-point / failing-operation enumeration over the recorded operation trace of a save (file interposer) x durability model, for Hypothesis-generated state pairs and all prior on-disk configurations",
        "Every file-system operation of the save (open, each write, flush, fsync, close, both renames, remove) is a crash point (before/after) and a failing operation, with and without loss of unsynced data (synced prefix / cut / zero-filled tail); after each, a fresh gateway must load the old or the new state, and the next save must succeed. ~1.4e4 fault cases quick, ~2e5 thorough.",
        "Trusted: the interposer sees every operation of mysensors.persistence (names open/os replaced in that module); renames/removes ordered and durable; only un-fsynced file data can be lost.",
        "DESIGN.md §2 C12",
    ),
    "C13": (
        "fault_enumeration",
        "exhaustive enumeration of every truncation offset and zero-fill of generated valid files (both formats) x backup absent/intact/damaged; oracle: no exception, state = intact backup or empty",
        "All truncation lengths 0..len-1 and zero-fill of the main file, crossed with seven backup variants, for Hypothesis-generated files; main and backup states have disjoint node ids so a merge is visible; followed by a save+load. Found F7 on the pinned tree.",
        "Trusted: damage classes are those the statement names (missing, empty, truncated, zero-filled); arbitrary bit flips are out of scope.",
        "DESIGN.md §2 C13",
    ),
    "C15": (
        "fault_enumeration",
        "exhaustive fault-position enumeration inside a scheduled save (failing file operation; concurrent message injected at every serialisation-hook call) for both gateway flavours with harness-owned timer / event loop",
        "Per generated state: every file operation of the scheduled save fails in turn, and at every call of the JSON encoder hook / Sensor.__getstate__ a concurrent message (new node / child / value) is processed; afterwards file loadable and a state that existed, 'not dirty => file current', schedule still armed, next clean attempt persists the then-current state. Found F9 (both flavours) and F10 on the pinned tree.",
        "Trusted: fake Timer / harness-driven asyncio.sleep + inline executor; concurrency granularity is the serialisation hooks (Python level).",
        "DESIGN.md §2 C15",
    ),
    "C09": (
        "exploration",
        "exhaustive over image length (thorough: every length 1..32768; quick: all 16/128-byte boundary neighbourhoods) with generated contents/ids/request orders; wire-only oracle with own hex/LE parser and own CRC-16/MODBUS; own Intel-HEX writer for the load round trip",
        "The config response (type, version, B, C) and the served blocks are parsed from the emitted lines only and compared with the image: R[:len]=image, 0xFF padding <= one page, 16*B multiple of 128, CRC-16/MODBUS(R)=C, echo of type/version/index, nothing beyond B; orders ascending/descending/shuffled/with repetitions across 1-3 nodes.",
        "Trusted: vf/ref/ota.py (CRC checked against the published check value 0x4B37), vf/ihex.py. For images > 4 KiB away from boundaries only first/last/sampled blocks are fetched.",
        "DESIGN.md §2 C09",
    ),
    "C17": (
        "exploration",
        "Hypothesis generation of prefixes constructed from the message's own levels, payloads with separators, topic mutations; round-trip oracle publish->mirror->recv; structural acceptance oracle (rsplit); subscription COVERAGE by an own MQTT filter matcher over presentation histories and restored states; raising callbacks injected",
        "64k (thorough 320k) generated cases; the map/accept part compares with a specification written as topic.rsplit('/', 5); the subscription part checks that every topic that must be receivable is matched by some subscribed filter, so different but covering filters stay green. Found F5, F6 on the pinned tree.",
        "Trusted: MQTT '+'/'#' semantics in the harness; poll thread replaced by the harness pump.",
        "DESIGN.md §2 C17",
    ),
    "C18": (
        "exploration",
        "exhaustive enumeration of six classes x all option subsets and of the 260-string version grid, plus Hypothesis junk versions; behavioural observation through probe frames and fake dial functions against an independent numeric floor rule",
        "All 768 constructor option subsets are built and each supplied option observed at its effect (callback, file at path/format, dial arguments and sleep interval, transport attributes, MQTT topic/retain); every grid version string is checked on the gateway side and on the node side. Found F12, F13, F17 on the pinned tree.",
        "Trusted: fake dial/sleep functions substituted in mysensors.gateway_serial/gateway_tcp; version strings mixing digits with other text are not pinned and only required not to raise.",
        "DESIGN.md §2 C18",
    ),
    "C19": (
        "exploration",
        "Hypothesis-generated byte streams x segmentations x pump schedules x flavours; differential oracle against a harness-framed reference run; per-line tagging of emitted commands to classify mismatches; known finding F16 recognised by exact signature",
        "Every generated stream is run through the real protocol classes under a generated chunking (incl. byte-by-byte, cuts inside multi-byte characters and between CR and LF, 120-byte slices) and - for the threaded gateway - a generated schedule of the poll-loop body; state and ordered command log must equal the reference in which the harness frames the lines itself.",
        "Trusted: reference framing (split on LF, UTF-8 with replacement); the clock is stubbed. KNOWN finding F16 (cross-line order of deferred commands in the threaded flavour) is counted, printed as KNOWN-FINDING and does not fail the check; any other difference does.",
        "DESIGN.md §2 C19",
    ),
    "C16": (
        "exploration",
        "harness-owned thread schedules: sys.settrace line-level cooperative scheduler with stateless DFS over ALL interleavings up to a pre-emption bound, plus Hypothesis-drawn unbounded schedules; oracle over the write log of fake connection objects",
        "Six scenarios (send vs lost-with-error / lost-clean / disconnect / lost-then-reconnected, two senders, producers vs the real poll loop) are explored exhaustively up to 2 (thorough 3) pre-emptions at source-line granularity of mysensors/transport.py and task.py; per schedule: no exception, command written at most once, only to a connection open at that instant, queue order preserved. Found F11 in all four disrupt scenarios on the pinned tree.",
        "Trusted: line granularity (not bytecode); C-level atomicity of deque operations; fake connection writes are atomic; the send lock is replaced by a scheduler-aware lock.",
        "DESIGN.md §2 C16",
    ),
    "C20": (
        "exploration",
        "Hypothesis-generated fault/event scripts run on simulated devices with a harness-owned clock: asyncio gateways on a virtual-time event loop with fake transports; threaded gateways with the real connect/reader/poll threads over fake serial/socket/select/time under a discrete-event scheduler (time advances only when every thread is blocked); reference-supervisor oracle over the callback/dial/write timeline",
        "Scripts of dial outcomes, data, read/write errors, abrupt and orderly peer closes, user disconnect, stop() and time advances for serial/TCP x threaded/asyncio and reconnect_timeout 0.5/2/10, plus TCP probe-latency patterns; checked: one on_conn_made per connection, one on_conn_lost per ended connection (error passed on / None for user close), dial within RT after every unrequested loss, retries exactly RT apart, silence after stop(), healthy link never dropped, silent link dropped between 2*RT and ~3*RT. Found F14, F15 on the pinned tree.",
        "Trusted: fidelity of the fake devices to pyserial/socket/asyncio semantics; thread schedules between blocking points are whatever the OS gives (finer races are C16's subject). KNOWN finding F15 (asyncio: no reconnect after an orderly peer close) is counted and printed as KNOWN-FINDING.",
        "DESIGN.md §2 C20",
    ),
}

NOT_YET = {}


def main():
    props = [json.loads(l)["id"] for l in open(os.path.join(HERE, "properties.jsonl"))]
    checks = []
    for pid in props:
        if pid not in CHECKS:
            continue
        cat, tech, text, note, ref = CHECKS[pid]
        checks.append(
            {
                "property_id": pid,
                "quick_cmd": f"./check {pid} --tier quick",
                "thorough_cmd": f"./check {pid} --tier thorough",
                "evidence_file": f"evidence/{pid}.json",
                "replay_cmd_template": f"./check {pid} --replay {{path}}",
                "engine": "vf",
                "level_claimed": {"category": cat, "text": text, "design_ref": ref},
                "level_note": note,
                "technique": tech,
            }
        )
    manifest = {
        "version": 1,
        "setup_cmd": "./setup.sh",
        "hooks": {
            "guard": "PYMYSENSORS_VERIF",
            "enable": "no source hooks: all instrumentation is substituted from the harness (transport objects, open/os names in mysensors.persistence, threading.Timer, time, serial_for_url, socket/select, loop.create_connection); /repo is imported as is from its working tree",
            "baseline_off_cmd": "cd /repo && /venv/bin/python -m pytest -ra -q -p no:cacheprovider --timeout=900 --continue-on-collection-errors",
            "source_commits": [],
            "add_only": True,
        },
        "engines": [
            {
                "name": "vf",
                "path": "vf/",
                "serves_properties": [c["property_id"] for c in checks],
                "kind_free_text": "Python harness: Hypothesis strategies / rule-based machines, exhaustive enumerators, fault-injecting file layer, line-level thread scheduler, simulated devices and clock, atheris targets; reference model in vf/ref/",
            }
        ],
        "checks": checks,
        "notes": "Every check: exit 0 held / 1 VIOLATION line / 2 harness error. VERIF_SEED seeds every Hypothesis run; PYTHONHASHSEED=0 is forced by ./check. Known findings: known_findings.json (read-only for the checks).",
        "not_applicable": [
            {"property_id": pid, "reason": NOT_YET.get(pid, "check not built yet in this round; design in DESIGN.md §2 — not claimed until the check exists and is validated")}
            for pid in props
            if pid not in CHECKS
        ],
    }
    path = os.path.join(HERE, "MANIFEST.json")
    with open(path, "w", encoding="utf-8") as fh:
        json.dump(manifest, fh, indent=1)
        fh.write("\n")
    try:
        import jsonschema

        schema = json.load(open("/root/.vp/MANIFEST.schema.json"))
        jsonschema.validate(manifest, schema)
        print("MANIFEST.json valid;", len(checks), "checks")
    except ImportError:
        print("MANIFEST.json written (jsonschema not importable here)")


if __name__ == "__main__":
    sys.exit(main())
