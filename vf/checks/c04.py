"""C04 - network state mirrors what the nodes reported; callbacks are exact."""
from vf.histcheck import HistoryCheck

RULE = (
    "Hypothesis-generated, state-aware histories (<= 30 ops: valid frames of every handler kind, "
    "near-valid frames with one field over a boundary, raw garbage, controller set-value calls, firmware "
    "updates, metric/clock toggles, a callback that raises at chosen steps) over 5 versions x {sync, async} "
    "run in lock-step with the reference model; after EVERY step the node/child/value projection (with "
    "Python types) and the callback log (count, fields, state seen from inside the callback) are compared. "
    "Non-trivial = (>= 2 nodes, or a re-presentation, or a value for a child before its presentation) AND "
    "(>= 1 callback-raising step or >= 1 rejected line); distinct by hash of the history."
)


def nontrivial(case, sess):
    nodes = sess.model.nodes
    lines = [op for op in case["ops"] if op["op"] == "line"]
    seen, repres = set(), False
    for op in lines:
        parts = op["text"].split(";")
        if len(parts) == 6 and parts[2] == "0":
            key = (parts[0], parts[1])
            if key in seen:
                repres = True
            seen.add(key)
    rich = len(nodes) >= 2 or repres
    stress = any(op["op"] == "cb_raise" and op["value"] for op in case["ops"]) or any(
        op["op"] == "line" and not _accepted(case["version"], op["text"]) for op in case["ops"]
    )
    return rich and stress and "aborted" not in sess.labels


def _accepted(version, text):
    from vf.ref import codec, validate

    try:
        return validate.validate(version, codec.decode(text)) is True
    except codec.Malformed:
        return False


ALPHABET = {
    "common": [
        "1;255;0;0;17;2.0", "2;255;0;0;18;1.5", "1;0;0;0;6;temp", "1;0;0;0;3;again", "1;0;1;0;0;21.5", "1;0;1;0;0;22",
        "1;0;2;0;0;", "1;255;3;0;0;55", "1;255;3;0;11;sketch", "255;255;3;0;3;", "0;255;3;0;14;ready", "1;5;1;0;2;1",
        "1;0;1;0;2;7", "1;255;0;0;17;1.3",
    ],
}


def exhaustive_phase(run, tier):
    """Thorough tier: ALL histories of length <= 4 over a 14-letter alphabet of representative lines
    (plus the version's wake-up announcement for 2.x), for every version and both flavours."""
    if tier != "thorough":
        return
    import itertools

    from vf import common
    from vf.ref import tables as T

    jobs = []
    for version in T.VERSIONS:
        letters = list(ALPHABET["common"])
        wake = T.wake_sub(version)
        if wake is not None:
            letters[-1] = f"1;255;3;0;{wake};9"
        for first in letters:
            jobs.append((version, first, letters))
    for stats in common.pool_map(_exhaustive_worker, jobs):
        run.stats.merge(stats)
    run.extra["exhaustive_length_le_4"] = True


def _exhaustive_worker(args):
    import itertools

    from vf import common, lockstep
    from vf.common import Violation

    version, first, letters = args
    common.setup_path()
    stats = common.Stats()
    for length in (1, 2, 3, 4):
        for rest in itertools.product(letters, repeat=length - 1):
            for flavour in ("sync", "async") if length == 4 else ("sync",):
                case = {"version": version, "flavour": flavour, "ops": [{"op": "line", "text": t} for t in (first,) + rest]}
                try:
                    lockstep.run_history(case, {"state", "callback"}, stats)
                except Violation as v:
                    if len(stats.violations) < 5:
                        stats.violation(v.clause, v.case, v.detail)
                stats.case(None, labels=("exhaustive-len<=4",))
    return stats


CHECK = HistoryCheck(
    "C04", {"state", "callback"}, RULE, dict(max_ops=30, op_weights=dict(save=3)), nontrivial,
    quick=(16, 160), thorough=(16, 2500), extra_phase=exhaustive_phase,
    assumptions=[
        "reference model vf/ref/model.py is the oracle; frames whose validity the statement does not pin are excluded by construction",
        "callback exactness: exactly once when the projection changed, at most once otherwise, zero for rejected lines",
    ],
)
main = CHECK.main
replay = CHECK.replay
