"""Per-version protocol tables, written by hand from the MySensors serial API
(versions 1.4, 1.5, 2.0, 2.1, 2.2) and the property statements - NOT derived from
mysensors/const_*.py. Range-compressed: per command the closed range of defined
sub-types, and per sub-type a payload-rule class.
"""

VERSIONS = ("1.4", "1.5", "2.0", "2.1", "2.2")

PRESENTATION, SET, REQ, INTERNAL, STREAM = 0, 1, 2, 3, 4
COMMANDS = (PRESENTATION, SET, REQ, INTERNAL, STREAM)

# largest defined sub-type per command and version (sub-types are 0..max, no holes)
MAX_SUB = {
    "1.4": {PRESENTATION: 25, SET: 39, REQ: 39, INTERNAL: 14, STREAM: 5},
    "1.5": {PRESENTATION: 35, SET: 46, REQ: 46, INTERNAL: 17, STREAM: 5},
    "2.0": {PRESENTATION: 39, SET: 56, REQ: 56, INTERNAL: 28, STREAM: 5},
    "2.1": {PRESENTATION: 39, SET: 56, REQ: 56, INTERNAL: 28, STREAM: 5},
    "2.2": {PRESENTATION: 39, SET: 56, REQ: 56, INTERNAL: 33, STREAM: 5},
}

MAX_NODE = 254  # highest assignable node id; 255 = broadcast
BROADCAST = 255
SYSTEM_CHILD = 255

# rule classes -------------------------------------------------------------
ANY = ("any",)
EMPTY = ("empty",)
BINARY = ("binary",)
PCT_INT = ("int_range", 0, 100)
PCT_FLOAT = ("float_range", 0.0, 100.0)
UNIT_FLOAT = ("float_range", -1.0, 1.0)
INTEGER = ("integer",)
EMPTY_OR_INTEGER = ("empty_or_integer",)
VERSION = ("version",)
POSITION = ("position",)
CONFIG = ("config",)
HEATER_WORDS = ("words", ("Off", "HeatOn", "CoolOn", "AutoChangeOver"))
SPEED_WORDS = ("words", ("Min", "Normal", "Max", "Auto"))


def HEX(n):
    return ("hex", n)


def NODE_RANGE(lo):
    return ("int_range", lo, MAX_NODE)


def at_least(version, floor):
    return VERSIONS.index(version) >= VERSIONS.index(floor)


def payload_rule(version, command, sub):
    """Payload rule of a *defined* (version, command, sub_type)."""
    if command == PRESENTATION:
        # 17 = node, 18 = repeater node: payload is the library version
        return VERSION if sub in (17, 18) else ANY
    if command == REQ:
        return EMPTY
    if command == STREAM:
        return ANY
    if command == SET:
        if sub in (2, 15, 16, 36):
            return BINARY
        if sub == 3:
            return PCT_INT
        if sub == 21:
            return HEATER_WORDS
        if sub == 22:
            return SPEED_WORDS if at_least(version, "1.5") else BINARY
        if sub == 23:
            return PCT_FLOAT
        if sub == 40:
            return HEX(6)
        if sub == 41:
            return HEX(8)
        if sub in (44, 45):
            return PCT_FLOAT
        if sub == 49:
            return POSITION
        if sub == 56:
            return UNIT_FLOAT
        return ANY
    if command == INTERNAL:
        return {
            0: PCT_INT,
            1: EMPTY_OR_INTEGER,
            3: EMPTY,
            4: NODE_RANGE(1),
            5: BINARY,
            6: CONFIG,
            7: EMPTY,
            8: NODE_RANGE(0),
            13: EMPTY,
            18: EMPTY,
            19: EMPTY,
            20: EMPTY,
            21: NODE_RANGE(0),
            22: INTEGER,
            24: INTEGER,
            25: INTEGER,
            30: INTEGER,
            31: INTEGER,
            32: INTEGER,
            33: INTEGER,
        }.get(sub, ANY)
    raise ValueError(command)


def defined(version, command, sub):
    return command in COMMANDS and 0 <= sub <= MAX_SUB[version][command]


# Which value types a child of a given presentation type is specified to carry is not
# part of any listed property's oracle; only "validates without internal error" is.

# smart-sleep wake-up announcement per version
def wake_sub(version):
    if version in ("2.0", "2.1"):
        return 22  # heartbeat response
    if version == "2.2":
        return 32  # pre-sleep notification
    return None


# exemplar payloads: (conforming, violating-or-None) per rule class
def exemplars(rule):
    kind = rule[0]
    if kind == "any":
        return "x", None
    if kind == "empty":
        return "", "1"
    if kind == "binary":
        return "1", "2"
    if kind == "int_range":
        return str(rule[1]), str(rule[2] + 1)
    if kind == "float_range":
        return str(rule[2]), str(rule[2] + 0.5)
    if kind == "integer":
        return "12", "x"
    if kind == "empty_or_integer":
        return "", "x"
    if kind == "version":
        return "2.0", "1.3"
    if kind == "position":
        return "55.7,13.0,18", "55.7,13.0"
    if kind == "config":
        return "M", "X"
    if kind == "words":
        return rule[1][0], "nope"
    if kind == "hex":
        return "a" * rule[1], "a" * (rule[1] - 1)
    raise ValueError(rule)
