"""Adapters that run the REAL code: a gateway of a chosen flavour over a recording
transport, one deterministic step at a time.

flavours
  sync   BaseSyncGateway + RecTransport; the harness executes the poll-loop body
         (reply = tasks.run_job(); transport.send(reply)) until the queue is empty
  synct  BaseSyncGateway + the real SyncTransport/BaseMySensorsProtocol over a fake
         connection object (exercises Transport.send)
  async  BaseAsyncGateway + RecTransport (jobs run inline)
  mqtt   MQTTGateway with recording publish/subscribe callbacks; inbound lines are
         fed through the topic mapping, published commands are mapped back to lines
"""
from vf.ref import codec


class RecTransport:
    """Stand-in for mysensors.transport.Transport that records every command."""

    def __init__(self):
        self.log = []
        self.can_log = False
        self.connect_task = None
        self.protocol = None
        self.timeout = 1.0
        self.reconnect_timeout = 10.0
        self.gateway = None

    def send(self, message):
        if not message:
            return
        self.log.append(message)

    def connect(self):
        return None

    def disconnect(self):
        return None


class FakeConnection:
    """What pyserial's ReaderThread is to the protocol: write/close + .serial."""

    def __init__(self):
        self.writes = []
        self.open = True
        self.serial = self

    def write(self, data):
        if not self.open:
            raise OSError("write on closed connection")
        self.writes.append(data)

    def close(self):
        self.open = False


class Raises:
    """Marker for an attribute whose read raised (makes every comparison fail)."""

    def __init__(self, exc):
        self.text = f"<reading raised {type(exc).__name__}: {exc}>"

    def __repr__(self):
        return self.text

    def __eq__(self, other):
        return False

    def __hash__(self):
        return hash(self.text)


def _read(obj, name):
    try:
        return getattr(obj, name)
    except Exception as exc:  # pylint: disable=broad-except
        return Raises(exc)


def _child_projection(child):
    values = _read(child, "values")
    if not isinstance(values, dict):
        # not a usable child object (e.g. a plain dict that came out of a persistence file)
        return {"type": Raises(TypeError(f"child is a {type(child).__name__}")), "description": repr(child)[:80], "values": {}}
    return {"type": _read(child, "type"), "description": _read(child, "description"), "values": dict(values)}


def projection(gateway):
    """Observable node/child/value tree of a real gateway (raw Python values)."""
    out = {}
    for nid, s in gateway.sensors.items():
        children = _read(s, "children")
        out[nid] = {
            "type": _read(s, "type"),
            "protocol_version": _read(s, "protocol_version"),
            "battery_level": _read(s, "battery_level"),
            "heartbeat": _read(s, "heartbeat"),
            "sketch_name": _read(s, "sketch_name"),
            "sketch_version": _read(s, "sketch_version"),
            "children": {cid: _child_projection(c) for cid, c in children.items()} if isinstance(children, dict) else children,
        }
    return out


def typed(obj):
    """Projection with Python type names made explicit (for exact round-trip checks)."""
    if isinstance(obj, dict):
        return {(type(k).__name__, k): typed(v) for k, v in obj.items()}
    if isinstance(obj, (list, tuple)):
        return [typed(v) for v in obj]
    return (type(obj).__name__, obj)


def jsonable(obj):
    if isinstance(obj, dict):
        return {str(k): jsonable(v) for k, v in obj.items()}
    if isinstance(obj, (list, tuple)):
        return [jsonable(v) for v in obj]
    if isinstance(obj, (set, frozenset)):
        return sorted(jsonable(v) for v in obj)
    if isinstance(obj, (str, int, float, bool)) or obj is None:
        return obj
    return repr(obj)


def transient(gateway):
    """Per-node transient state: hold queues, desired maps, reboot flags; OTA stores."""
    nodes = {}
    for nid, s in gateway.sensors.items():
        nodes[nid] = {
            "queue": list(s.queue),
            "desired": {
                cid: dict(c.values) for cid, c in s.new_state.items()
            },
            "reboot": s.reboot,
        }
    ota = gateway.tasks.ota
    return {
        "nodes": nodes,
        "ota": {
            "firmware": sorted(ota.firmware),
            "requested": dict(ota.requested),
            "unstarted": dict(ota.unstarted),
            "started": dict(ota.started),
        },
    }


class Step:
    """What one driven operation produced."""

    def __init__(self):
        self.sent = []  # command strings that reached the transport during this step
        self.callbacks = []  # (six fields, projection seen from inside the callback)
        self.exc = None  # exception that escaped the pump / dispatcher
        self.call_exc = None  # exception raised to the caller of a controller call


class Driver:
    def __init__(self, version, flavour="sync", in_prefix="in", out_prefix="out", persistence=False,
                 persistence_file=None, snapshot_in_callback=False):
        import mysensors
        from mysensors import transport as mtransport

        self.version = version
        self.flavour = flavour
        self.cb_log = []
        self.cb_raise = False
        self.cb_enabled = True
        self.snapshot_in_callback = snapshot_in_callback
        self.pubs = []
        self.subs = []
        self.pub_raise = False
        kwargs = dict(event_callback=self._callback, protocol_version=version)
        if persistence:
            kwargs.update(persistence=True, persistence_file=persistence_file)
        if flavour == "sync":
            self.transport = RecTransport()
            self.gw = mysensors.BaseSyncGateway(self.transport, **kwargs)
        elif flavour == "async":
            self.transport = RecTransport()
            self.gw = mysensors.BaseAsyncGateway(self.transport, **kwargs)
        elif flavour == "synct":
            holder = {}
            self.transport = mtransport.SyncTransport(None, lambda t: None)
            self.gw = mysensors.BaseSyncGateway(self.transport, **kwargs)
            self.transport.gateway = self.gw
            self.transport.protocol.gateway = self.gw
            self.conn = FakeConnection()
            self.transport.protocol.transport = self.conn
            holder["gw"] = self.gw
        elif flavour == "mqtt":
            from mysensors.gateway_mqtt import MQTTGateway

            self.in_prefix, self.out_prefix = in_prefix, out_prefix
            self.gw = MQTTGateway(self._pub, self._sub, in_prefix=in_prefix, out_prefix=out_prefix, **kwargs)
            self.transport = self.gw.tasks.transport
        else:
            raise ValueError(flavour)
        self._mark = 0

    # -- recording hooks ------------------------------------------------------
    def _callback(self, msg):
        if not self.cb_enabled:
            return
        fields = (msg.node_id, msg.child_id, msg.type, msg.ack, msg.sub_type, msg.payload)
        snap = projection(self.gw) if self.snapshot_in_callback else None
        self.cb_log.append((fields, snap))
        if self.cb_raise:
            raise self._user_error("callback")

    def _user_error(self, what):
        """User code fails in different ways: with a message, without arguments, with errno, with a KeyError."""
        self._errors = getattr(self, "_errors", 0) + 1
        kind = self._errors % 4
        if kind == 0:
            return TimeoutError()
        if kind == 1:
            return RuntimeError(f"{what} raises on purpose")
        if kind == 2:
            return ConnectionResetError(104, "Connection reset by peer")
        return KeyError(what)

    def _pub(self, topic, payload, qos, retain):
        self.pubs.append((topic, payload, qos, retain))
        if self.pub_raise:
            raise self._user_error("publish")

    def _sub(self, topic, callback, qos):
        self.subs.append((topic, qos))

    # -- what was sent ----------------------------------------------------------
    def sent_log(self):
        """All commands emitted so far, as command strings."""
        if self.flavour in ("sync", "async"):
            return list(self.transport.log)
        if self.flavour == "synct":
            return [w.decode("utf-8", "surrogatepass") for w in self.conn.writes]
        out = []
        for topic, payload, qos, _ in self.pubs:
            levels = topic[len(self.out_prefix) + 1 :].split("/") if topic.startswith(self.out_prefix + "/") else ["?" + topic]
            out.append(";".join(levels + [payload]) + "\n")
        return out

    # -- driving ----------------------------------------------------------------
    def _pump(self, step):
        tasks = self.gw.tasks
        if self.flavour == "async":
            return
        guard = 0
        while tasks.queue:
            guard += 1
            if guard > 10000:
                raise RuntimeError("pump does not terminate")
            try:
                reply = tasks.run_job()
                tasks.transport.send(reply)
            except Exception as exc:  # pylint: disable=broad-except
                step.exc = exc
                return

    def _begin(self):
        self._mark = len(self.sent_log())
        self._cb_mark = len(self.cb_log)
        return Step()

    def _end(self, step):
        step.sent = self.sent_log()[self._mark :]
        step.callbacks = self.cb_log[self._cb_mark :]
        return step

    def line(self, text, raw=None):
        """One inbound line, fully pumped. `raw`: the bytes on the wire when they are not simply the UTF-8 form
        of `text` (invalid sequences); only the flavour with a real reader path can take them."""
        step = self._begin()
        gw = self.gw
        try:
            if self.flavour == "mqtt":
                topic, payload, qos = self.mqtt_inbound(text)
                gw.tasks.transport.recv(topic, payload, qos)
            elif self.flavour == "synct" and "\n" not in text:
                # the real reader path: bytes arrive in reads of at most 120 bytes (what the TCP reader asks for)
                data = (raw if raw is not None else text.encode("utf-8")) + b"\n"
                for pos in range(0, len(data), 120):
                    self.transport.protocol.data_received(data[pos:pos + 120])
            else:
                gw.tasks.add_job(gw.logic, text)
        except Exception as exc:  # pylint: disable=broad-except
            step.exc = exc
            return self._end(step)
        self._pump(step)
        return self._end(step)

    def burst(self, texts):
        """Several inbound lines that arrive in one read: all are queued before the pump runs."""
        step = self._begin()
        gw = self.gw
        try:
            for text in texts:
                if self.flavour == "mqtt":
                    topic, payload, qos = self.mqtt_inbound(text)
                    gw.tasks.transport.recv(topic, payload, qos)
                else:
                    gw.tasks.add_job(gw.logic, text)
        except Exception as exc:  # pylint: disable=broad-except
            step.exc = exc
            return self._end(step)
        self._pump(step)
        return self._end(step)

    def mqtt_inbound(self, text):
        """Map a line onto (topic, payload, qos) the way the MQTT gateway sketch does."""
        parts = codec.strip_trailing(text).split(";")
        if len(parts) >= 6:
            levels, payload = parts[:5], ";".join(parts[5:])
        else:
            levels, payload = parts, ""
        qos = 1 if len(levels) >= 4 and levels[3].strip() == "1" else 0
        return self.in_prefix + "/" + "/".join(levels), payload, qos

    def call(self, func, *args, **kwargs):
        """A controller call followed by a full pump."""
        step = self._begin()
        try:
            func(*args, **kwargs)
        except Exception as exc:  # pylint: disable=broad-except
            step.call_exc = exc
        self._pump(step)
        return self._end(step)

    def set_value(self, nid, cid, vt, value, **kw):
        return self.call(self.gw.set_child_value, nid, cid, vt, value, **kw)

    def update_fw(self, nids, fw_type, fw_ver, image=None, path=None, via_path=False):
        """Schedule a firmware update. `image` bytes go straight to the OTA store the
        way tasks.update_fw hands over a loaded file; `path` goes through update_fw."""
        if via_path and image is not None and path is None:
            import os
            import tempfile

            from vf import ihex

            fd, path = tempfile.mkstemp(suffix=".hex", prefix="vf_fw_")
            with os.fdopen(fd, "w", encoding="utf-8") as fh:
                fh.write(ihex.dump(image))
            try:
                return self.update_fw(nids, fw_type, fw_ver, path=path)
            finally:
                os.remove(path)
        if path is not None or image is None:
            if self.flavour == "async":
                import asyncio

                def run_coro():
                    asyncio.run(self.gw.update_fw(nids, fw_type, fw_ver, fw_path=path))

                return self.call(run_coro)
            return self.call(self.gw.update_fw, nids, fw_type, fw_ver, fw_path=path)

        def direct():
            self.gw.tasks.ota.make_update(nids, fw_type, fw_ver, image)

        return self.call(direct)

    def snapshot(self):
        """Everything a rejected line must leave untouched."""
        return {
            "tree": typed(projection(self.gw)),
            "transient": transient(self.gw),
            "callbacks": len(self.cb_log),
            "sent": len(self.sent_log()),
            "jobs": len(self.gw.tasks.queue),
            "subs": len(self.subs),
            "metric": self.gw.metric,
        }
