"""C18 - documented configuration is accepted and honoured."""
import asyncio
import glob
import itertools
import json
import os

from hypothesis import strategies as st

from vf import common, drive, persist
from vf.common import Violation
from vf.ref import model as M
from vf.ref import validate as V

PROP = "C18"
RULE = (
    "EXHAUSTIVE: six public gateway classes x every subset of their seven documented keyword options (768 "
    "constructions) with values drawn per option; each supplied option is then observed (callback fires on a "
    "presentation; a save lands at the given path in the given format; reconnect_timeout governs probing, dropping and keeping a TCP link on the simulated clock of C20, also when the link comes up after several refused dials; port/baud/host/timeout/reconnect_timeout "
    "reach the fake dial function and the transport attributes; prefixes/retain reach the publish/subscribe "
    "callbacks). EXHAUSTIVE: 260 version strings major.minor[.patch] (major 0..3, minor 0..12, patch absent or "
    "0..3) + Hypothesis junk (text, numbers, None, wrapped); the selected behaviour is observed through probe "
    "frames that separate the versions (V_RGB >= 1.5; V_TEXT and presentation request >= 2.0; "
    "I_HEARTBEAT_REQUEST name >= 2.1; internal 32 >= 2.2) and compared with an independent numeric floor rule; the "
    "same for the version a node presents, observed through which controller set-value calls a sleeping node of "
    "that version accepts. Child tables: in freshly imported library modules children of every type x every value type are validated under 8 version strings in 4 different orders; the acceptance matrix must be independent of the order, equal for spellings of one version, and refuse value types beyond the floor version. Non-trivial = option subset of size >= 2 containing a transport option, or a version "
    "string that is not one of the five canonical ones; distinct by (class, subset) / string."
)

COMMON = ("event_callback", "persistence", "persistence_file", "protocol_version")
OPTIONS = {
    "SerialGateway": COMMON + ("baud", "timeout", "reconnect_timeout"),
    "AsyncSerialGateway": COMMON + ("baud", "timeout", "reconnect_timeout"),
    "TCPGateway": COMMON + ("port", "timeout", "reconnect_timeout"),
    "AsyncTCPGateway": COMMON + ("port", "timeout", "reconnect_timeout"),
    "MQTTGateway": COMMON + ("in_prefix", "out_prefix", "retain"),
    "AsyncMQTTGateway": COMMON + ("in_prefix", "out_prefix", "retain"),
}
TRANSPORT_OPTS = {"baud", "timeout", "reconnect_timeout", "port", "in_prefix", "out_prefix", "retain"}


def option_values(seed_value):
    import random

    rnd = random.Random(seed_value)
    return {
        "persistence": True,
        "protocol_version": rnd.choice(["1.5", "2.0", "2.1", "2.2", "2.0.0", "2.3"]),
        "baud": rnd.choice([9600, 38400, 57600]),
        "port": rnd.choice([5004, 8888, 1]),
        "timeout": rnd.choice([0.5, 2, 3.5, 0, 0.0]),  # 0 = non-blocking reads: falsy but legitimate
        "reconnect_timeout": rnd.choice([1, 7.5, 30, 0]),
        "in_prefix": rnd.choice(["gw-out", "a/b", "0"]),
        "out_prefix": rnd.choice(["gw-in", "c/d", "1"]),
        "retain": rnd.choice([False, False, True]),
        "ext": rnd.choice(["json", "pickle"]),
    }


# -- observing the version a gateway object behaves as ---------------------------------------------


def pump_all(gw, sent):
    tasks = gw.tasks
    while getattr(tasks, "queue", None):
        reply = tasks.run_job()
        if reply:
            sent.append(reply)


def observed_gateway_version(version_arg):
    """Construct a base gateway with protocol_version=version_arg and probe its behaviour."""
    import mysensors

    tr = drive.RecTransport()
    gw = mysensors.BaseSyncGateway(tr, protocol_version=version_arg)

    def feed(line):
        gw.tasks.add_job(gw.logic, line)
        while gw.tasks.queue:
            tr.send(gw.tasks.run_job())

    feed("1;255;0;0;17;2.0")
    feed("1;0;0;0;23;custom")
    feed("1;0;1;0;40;ffffff")  # V_RGB: defined from 1.5
    feed("1;0;1;0;47;text")  # V_TEXT: defined from 2.0
    has_rgb = 40 in gw.sensors[1].children[0].values
    has_text = 47 in gw.sensors[1].children[0].values
    mark = len(tr.log)
    feed("5;0;1;0;0;21")  # unknown node: presentation request from 2.0
    asks = any(l.startswith("5;255;3;0;19;") for l in tr.log[mark:])
    mark = len(tr.log)
    feed("6;255;3;0;32;500")  # pre-sleep notification: defined in 2.2 only
    has_22 = any(l.startswith("6;255;3;0;19;") for l in tr.log[mark:])
    has_21 = hasattr(gw.const.Internal, "I_HEARTBEAT_REQUEST")
    facts = (has_rgb, has_text, asks, has_21, has_22)
    table = {
        (False, False, False, False, False): "1.4",
        (True, False, False, False, False): "1.5",
        (True, True, True, False, False): "2.0",
        (True, True, True, True, False): "2.1",
        (True, True, True, True, True): "2.2",
    }
    return table.get(facts, f"inconsistent{facts}")


def observed_node_version(version_text):
    """On a 2.2 gateway a node presents `version_text`; which value types may be set while it sleeps?"""
    import mysensors

    tr = drive.RecTransport()
    gw = mysensors.BaseSyncGateway(tr, protocol_version="2.2")

    def feed(line):
        gw.tasks.add_job(gw.logic, line)
        while gw.tasks.queue:
            tr.send(gw.tasks.run_job())

    feed(f"1;255;0;0;17;{version_text}")
    if 1 not in gw.sensors:
        return "rejected"
    feed("1;0;0;0;23;custom")
    feed("1;255;3;0;32;500")
    if not gw.sensors[1].is_smart_sleep_node:
        return "not-sleeping"
    out = []
    for vt, value in ((40, "ffffff"), (47, "text")):
        try:
            gw.set_child_value(1, 0, vt, value)
            out.append(True)
        except Exception:  # pylint: disable=broad-except
            out.append(False)
    return {(False, False): "1.4", (True, False): "1.5", (True, True): ">=2.0"}.get(tuple(out), f"inconsistent{out}")


def expected_floor(arg):
    """Independent oracle: floor version for a gateway argument, or None if not pinned."""
    if isinstance(arg, bool):
        return None
    if isinstance(arg, (int, float)):
        arg = str(arg)
    if arg is None:
        return "1.4"
    if not isinstance(arg, str):
        return None
    tup = V.version_tuple(arg)
    if tup is not None:
        return M.floor_version(arg)
    if not any(ch.isdigit() for ch in arg):
        return "1.4"  # plainly non-numeric
    return None  # digits mixed with other text / blanks: not pinned


def check_version_string(arg, stats=None, origin="grid"):
    case = {"kind": "version", "arg": arg if isinstance(arg, (str, int, float, type(None))) else repr(arg)}
    try:
        got = observed_gateway_version(arg)
    except Exception as exc:  # pylint: disable=broad-except
        raise Violation(f"version_arg_raises.{type(exc).__name__}", case, f"Gateway(protocol_version={arg!r}) / probing raised {exc!r}") from exc
    want = expected_floor(arg)
    if want is not None and got != want:
        raise Violation("gateway_version_floor", case, f"protocol_version={arg!r} behaves as {got}, numeric floor rule says {want}")
    node = None
    if isinstance(arg, str) and V.version_verdict(arg) is True:
        node = observed_node_version(arg)
        nwant = M.floor_version(arg)
        nwant = ">=2.0" if nwant in ("2.0", "2.1", "2.2") else nwant
        if node != nwant:
            raise Violation("node_version_floor", case, f"a node presenting {arg!r} is treated as {node}, numeric floor rule says {nwant}")
    if stats is not None:
        nt = arg not in ("1.4", "1.5", "2.0", "2.1", "2.2")
        stats.case(f"v:{arg!r}" if nt else None, {"protocol_version": case["arg"], "gateway_behaves_as": got, "node_treated_as": node} if (len(repr(arg)) + len(got)) % 7 == 0 else None,
                   labels=("version-" + origin, "pinned" if want is not None else "unpinned"))


# -- constructing every option subset ---------------------------------------------------------------


class Dial(Exception):
    pass


def construct_and_observe(cls_name, subset, seed_value, stats=None):
    import mysensors.mysensors as api

    vals = option_values(seed_value)
    if "TCP" in cls_name and not vals["reconnect_timeout"]:
        # for the TCP gateways the option doubles as the dial timeout: 0 would mean "give up at once" - not a
        # sensible configuration, and nothing pins what happens then; 0 is kept for the serial gateways only
        vals["reconnect_timeout"] = 1
    case = {"kind": "options", "cls": cls_name, "subset": list(subset), "seed": seed_value}
    fired = []
    with persist.Scratch() as tmp, persist.TimerPatch() as fake:
        fake.Thread = _NoThread
        cwd = os.getcwd()
        os.chdir(tmp)
        try:
            kwargs = {}
            for opt in subset:
                if opt == "event_callback":
                    kwargs[opt] = fired.append
                elif opt == "persistence_file":
                    kwargs[opt] = os.path.join(tmp, "sub", f"net.{vals['ext']}")
                    os.makedirs(os.path.join(tmp, "sub"), exist_ok=True)
                else:
                    kwargs[opt] = vals[opt]
            cls = getattr(api, cls_name)
            pubs, subs = [], []
            try:
                if "MQTT" in cls_name:
                    gw = cls(lambda *a: pubs.append(a), lambda *a: subs.append(a), **kwargs)
                elif "TCP" in cls_name:
                    gw = cls("10.1.2.3", **kwargs)
                else:
                    gw = cls("/dev/ttyFAKE", **kwargs)
            except Exception as exc:  # pylint: disable=broad-except
                raise Violation(f"constructor_raises.{type(exc).__name__}", case, f"{cls_name}({', '.join(f'{k}=...' for k in kwargs)}) raised {type(exc).__name__}: {exc}") from exc
            tr = gw.tasks.transport
            sent = []
            # every supplied option takes effect -------------------------------------------------
            real_send = tr.send
            tr.send = lambda m: sent.append(m) if m else None
            if "MQTT" in cls_name:
                tr.send = real_send
            gw.tasks.add_job(gw.logic, "1;255;0;0;17;2.0")
            pump_all(gw, sent)
            if "event_callback" in subset and len(fired) != 1:
                raise Violation("option_ignored.event_callback", case, f"{cls_name}: event_callback fired {len(fired)} times for a node presentation")
            if "protocol_version" in subset:
                want = M.floor_version(vals["protocol_version"])
                got = M.floor_version(gw.protocol_version) if V.version_tuple(gw.protocol_version) else gw.protocol_version
                tables = gw.const.__name__.rsplit("_", 1)[-1]
                if got != want or tables != want.replace(".", ""):
                    raise Violation("option_ignored.protocol_version", case, f"{cls_name}: protocol_version={vals['protocol_version']!r} -> gateway version {gw.protocol_version!r}, tables {gw.const.__name__}")
            if "persistence" in subset:
                pers = gw.tasks.persistence
                if pers is None:
                    raise Violation("option_ignored.persistence", case, f"{cls_name}: persistence=True but no persistence object")
                path = kwargs.get("persistence_file", os.path.join(tmp, "mysensors.pickle"))
                pers.save_sensors()  # the first scheduled save
                # an update arrives; the next scheduled save must write it (no flags forced by the harness)
                gw.tasks.add_job(gw.logic, "1;3;0;0;6;late child")
                pump_all(gw, sent)
                gw.tasks.add_job(gw.logic, "1;3;1;0;0;21.5")
                pump_all(gw, sent)
                pers.save_sensors()
                fresh = drive.Driver("2.2", "sync", persistence=True, persistence_file=path)
                fresh.gw.tasks.persistence.safe_load_sensors()
                got = fresh.gw.sensors.get(1)
                if got is None or 3 not in got.children or got.children[3].values.get(0) != "21.5":
                    raise Violation("option_ignored.persistence", case, f"{cls_name} with options {sorted(subset)}: an update received after the first save was not written by the next save (file has {sorted(fresh.gw.sensors)} / children {sorted(got.children) if got else None})")
                if not os.path.isfile(path):
                    raise Violation("option_ignored.persistence_file", case, f"{cls_name}: the save did not land at {path!r}; directory has {sorted(os.listdir(tmp))}")
                head = open(path, "rb").read(1)
                is_json = head == b"{"
                if path.endswith(".json") != is_json:
                    raise Violation("option_ignored.persistence_file", case, f"{cls_name}: file {path} is not in the format its extension names")
            elif gw.tasks.persistence is not None:
                raise Violation("persistence_without_option", case, f"{cls_name}: persistence object exists although persistence was not requested")
            for opt in ("timeout", "reconnect_timeout"):
                if opt in subset and "MQTT" not in cls_name and getattr(tr, opt) != vals[opt]:
                    raise Violation(f"option_ignored.{opt}", case, f"{cls_name}: transport.{opt} = {getattr(tr, opt)!r}, supplied {vals[opt]!r}")
            if "MQTT" in cls_name:
                for opt in ("in_prefix", "out_prefix"):
                    want = vals[opt] if opt in subset else ""
                    if getattr(tr, opt) != want:
                        raise Violation(f"option_ignored.{opt}", case, f"{cls_name}: transport.{opt} = {getattr(tr, opt)!r}, expected {want!r}")
                tr.send("1;255;3;0;6;M\n")
                want_topic = (vals["out_prefix"] if "out_prefix" in subset else "") + "/1/255/3/0/6"
                want_retain = vals["retain"] if "retain" in subset else True
                if not pubs or pubs[-1][0] != want_topic or pubs[-1][3] is not want_retain:
                    raise Violation("option_ignored.mqtt_publish", case, f"{cls_name}: published {pubs[-1:]} expected topic {want_topic!r} retain {want_retain}")
                tr.handle_subscription("/+/+/0/+/+")
                want_sub = (vals["in_prefix"] if "in_prefix" in subset else "") + "/+/+/0/+/+"
                if not subs or subs[-1][0] != want_sub:
                    raise Violation("option_ignored.in_prefix", case, f"{cls_name}: subscribed {subs[-1:]} expected {want_sub!r}")
                # the inbound prefix is matched exactly: our topics are taken, a neighbour's (nested below ours,
                # above ours, a sibling with a longer name, the outbound prefix) are not
                pre = vals["in_prefix"] if "in_prefix" in subset else ""
                probes = [(f"{pre}/1/255/3/0/6", True), (f"{pre}/garage/1/255/3/0/6", False), (f"{pre}/a/b/1/255/3/0/6", False),
                          (f"x/{pre}/1/255/3/0/6", False), (f"{pre}x/1/255/3/0/6", False)]
                taken = []
                real_logic = gw.logic
                gw.logic = lambda data: (taken.append(data), real_logic(data))[1]  # sync: queued and pumped; asyncio: run at once
                try:
                    for topic, ours in probes:
                        del taken[:]
                        try:
                            tr.recv(topic, "0", 0)
                            pump_all(gw, sent)
                        except Exception as exc:  # pylint: disable=broad-except
                            raise Violation(f"recv_raises.{type(exc).__name__}", case, f"{cls_name}: recv({topic!r}) raised {exc!r}") from exc
                        if (len(taken) == 1) != ours:
                            raise Violation("option_ignored.in_prefix", case, f"{cls_name} with in_prefix {pre!r}: topic {topic!r} {'was not taken' if ours else 'of somebody else was taken as ours'} (handled {taken})")
                finally:
                    gw.logic = real_logic
            else:
                observe_dial(cls_name, gw, subset, vals, case)
        finally:
            os.chdir(cwd)
    if stats is not None:
        nt = len(subset) >= 2 and bool(set(subset) & TRANSPORT_OPTS)
        stats.case(f"{cls_name}:{','.join(subset)}" if nt else None, {"class": cls_name, "options": list(subset)} if len(subset) == 3 and subset[0] == "persistence" else None, labels=(cls_name, f"subset{len(subset)}"))


class _NoThread:
    def __init__(self, target=None, args=(), **kw):
        self.target, self.args = target, args

    def start(self):
        return None


def observe_dial(cls_name, gw, subset, vals, case):
    """Run the class's connect function once against fake dial functions; check what arrives."""
    import mysensors.gateway_serial as gs
    import mysensors.gateway_tcp as gt

    tr = gw.tasks.transport
    seen = {}
    want_rt = vals["reconnect_timeout"] if "reconnect_timeout" in subset else 10.0
    want_timeout = vals["timeout"] if "timeout" in subset else 1.0

    class FakeTime:
        @staticmethod
        def sleep(secs):
            seen["sleep"] = secs
            tr.protocol = None  # ends the sync connect loop

        @staticmethod
        def time():
            return 0.0

    async def fake_sleep(secs):
        seen["sleep"] = secs
        raise asyncio.CancelledError()

    class AsyncioShim:
        sleep = staticmethod(fake_sleep)

        def __getattr__(self, name):
            return getattr(asyncio, name)

    if cls_name == "SerialGateway":
        import serial

        def fake_url(port, baud, timeout=None, **kw):
            seen.update(port=port, baud=baud, timeout=timeout)
            raise serial.SerialException("no such port")

        saved = (gs.serial.serial_for_url, gs.time)
        gs.serial.serial_for_url, gs.time = fake_url, FakeTime
        try:
            gs.sync_connect(tr)
        finally:
            gs.serial.serial_for_url, gs.time = saved
        expect = {"port": "/dev/ttyFAKE", "baud": vals["baud"] if "baud" in subset else 115200, "timeout": want_timeout, "sleep": want_rt}
    elif cls_name == "TCPGateway":
        def fake_conn(address, timeout=None, **kw):
            seen.update(address=tuple(address), dial_timeout=timeout)
            raise OSError("unreachable")

        saved = (gt.socket.create_connection, gt.time)
        gt.socket.create_connection, gt.time = fake_conn, FakeTime
        try:
            gt.sync_connect(tr)
        finally:
            gt.socket.create_connection, gt.time = saved
        expect = {"address": ("10.1.2.3", vals["port"] if "port" in subset else 5003), "dial_timeout": want_rt, "sleep": want_rt}
    elif cls_name == "AsyncSerialGateway":
        import serial

        async def fake_create(loop, factory, port, baud, **kw):
            seen.update(port=port, baud=baud)
            raise serial.SerialException("no such port")

        saved = (gs.serial_asyncio.create_serial_connection, gs.asyncio)
        gs.serial_asyncio.create_serial_connection, gs.asyncio = fake_create, AsyncioShim()
        try:
            _run_cancelled(gs.async_connect(tr))
        finally:
            gs.serial_asyncio.create_serial_connection, gs.asyncio = saved
        expect = {"port": "/dev/ttyFAKE", "baud": vals["baud"] if "baud" in subset else 115200, "sleep": want_rt}
    else:  # AsyncTCPGateway
        async def runner():
            loop = asyncio.get_running_loop()

            async def fake_create(factory, host, port, **kw):
                seen.update(address=(host, port))
                raise OSError("unreachable")

            loop.create_connection = fake_create
            await gt.async_connect(tr)

        saved = gt.asyncio
        gt.asyncio = AsyncioShim()
        try:
            _run_cancelled(runner())
        finally:
            gt.asyncio = saved
        expect = {"address": ("10.1.2.3", vals["port"] if "port" in subset else 5003), "sleep": want_rt}
    for key, want in expect.items():
        if seen.get(key) != want:
            raise Violation(f"option_not_forwarded.{key}", case, f"{cls_name}: the dial function saw {key}={seen.get(key)!r}, expected {want!r} (options {sorted(subset)})")


def _run_cancelled(coro):
    loop = asyncio.new_event_loop()
    try:
        loop.run_until_complete(coro)
    except asyncio.CancelledError:
        pass
    finally:
        loop.close()


# ---------------------------------------------------------------------------------------------


def version_grid():
    out = []
    for major in range(0, 4):
        for minor in range(0, 13):
            out.append(f"{major}.{minor}")
            for patch in range(0, 4):
                out.append(f"{major}.{minor}.{patch}")
    return out


junk = st.one_of(
    st.none(), st.integers(-3, 30), st.floats(0, 5, allow_nan=False).map(lambda f: round(f, 1)),
    st.text(max_size=8), st.sampled_from(["", "abc", "latest", "two", "2", "1", "3", "0", "2.", ".2", "2..0", "v2.0", " 2.0", "2.0 ", "2.0b1", "2.0-beta", "1.4.0.0", "١.٤", "2,0", "nan", "None"]),
    st.from_regex(r"[0-3]\.[0-9]{1,2}(\.[0-9]{1,2})?", fullmatch=True),
)


def version_tables_usable(version, case):
    """Gateways of every supported version have lived in this process by now: the tables a version string selects
    must still be that version's own - every presentation type gives a child schema, and the value types a child
    type takes are the ones the hand-written tables of the floor version know."""
    import mysensors
    import voluptuous as vol
    from mysensors.sensor import ChildSensor

    from vf.ref import tables as T

    for other in T.VERSIONS:
        mysensors.BaseSyncGateway(drive.RecTransport(), protocol_version=other)
    gw = mysensors.BaseSyncGateway(drive.RecTransport(), protocol_version=version)
    floor = M.floor_version(str(version))
    for pres in gw.const.Presentation:
        try:
            ChildSensor(0, pres).validate(gw.protocol_version, {})
        except vol.Invalid:
            pass
        except Exception as exc:  # pylint: disable=broad-except
            raise Violation("version_tables_contaminated", case, f"protocol_version={version!r} (tables of {floor}): ChildSensor(0, {pres!r}).validate raised {type(exc).__name__}: {exc} once gateways of other versions had been created in the process") from exc
        for vt in gw.const.VALID_TYPES.get(pres, []):
            if floor and int(vt) > T.MAX_SUB[floor][T.SET]:
                raise Violation("version_tables_contaminated", case, f"protocol_version={version!r} selects the {floor} tables, but child type {pres!r} lists value type {vt!r}, which {floor} does not define")


def two_gateways(cls_name, version, stats=None):
    """Options of a gateway must keep taking effect when a second gateway of the same class exists."""
    try:
        return _two_gateways(cls_name, version, stats)
    except Violation:
        raise
    except Exception as exc:  # pylint: disable=broad-except
        raise Violation(f"constructor_raises.{type(exc).__name__}", {"kind": "pair", "cls": cls_name, "version": version}, f"{cls_name} pair with documented options raised {type(exc).__name__}: {exc}") from exc


def _two_gateways(cls_name, version, stats=None):
    import mysensors.mysensors as api

    case = {"kind": "pair", "cls": cls_name, "version": version}
    cls = getattr(api, cls_name)
    with persist.TimerPatch() as fake:
        fake.Thread = _NoThread
        if "MQTT" in cls_name:
            logs = {"a": ([], []), "b": ([], [])}

            def make(tag, prefix):
                pubs, subs = logs[tag]
                return cls(lambda *a: pubs.append(a), lambda *a: subs.append(a), in_prefix=prefix + "/in", out_prefix=prefix + "/out", protocol_version=version)

            gw_a = make("a", "site-a")
            gw_b = make("b", "site-b")
            for gw in (gw_a, gw_b):
                gw.tasks.add_job(gw.logic, "7;255;0;0;17;2.0")
                pump_all(gw, [])
            gw_a.tasks.add_job(gw_a.logic, "7;1;0;0;3;light")
            pump_all(gw_a, [])
            subs_a = [t for t, *_ in logs["a"][1]]
            subs_b = [t for t, *_ in logs["b"][1]]
            if not any(t.startswith("site-a/in/7/1/1") for t in subs_a) or any("/7/1/" in t for t in subs_b):
                raise Violation("option_ignored.second_gateway", case, f"{cls_name} {version}: a child presented to gateway A (in_prefix site-a/in) was subscribed as A={subs_a} B={subs_b}")
        elif "TCP" in cls_name:
            import mysensors.gateway_tcp as gt

            class Clock:
                now = 100.0

                @classmethod
                def time(cls_):
                    return cls_.now

            saved = gt.time
            gt.time = Clock
            try:
                gw_a = cls("10.0.0.1", reconnect_timeout=5.0, protocol_version=version)
                gw_b = cls("10.0.0.2", reconnect_timeout=5.0, protocol_version=version)
                Clock.now = 108.0
                # A's device answers the version probe: A's silence timer restarts, B's does not
                reply = gw_a.logic("0;255;3;0;2;2.3.2")
                del reply
                if gw_a.tcp_disconnect_timer != 108.0 or gw_b.tcp_disconnect_timer == 108.0:
                    raise Violation("option_ignored.second_gateway", case, f"{cls_name} {version}: a version answer received by gateway A updated timers A={gw_a.tcp_disconnect_timer} B={gw_b.tcp_disconnect_timer}")
            finally:
                gt.time = saved
        else:
            fired = {"a": [], "b": []}
            gw_a = cls("/dev/ttyA", event_callback=fired["a"].append, protocol_version=version)
            gw_b = cls("/dev/ttyB", event_callback=fired["b"].append, protocol_version=version)
            gw_a.tasks.add_job(gw_a.logic, "7;255;0;0;17;2.0")
            pump_all(gw_a, [])
            if len(fired["a"]) != 1 or fired["b"] or 7 in gw_b.sensors:
                raise Violation("option_ignored.second_gateway", case, f"{cls_name} {version}: a presentation received by gateway A fired callbacks A={len(fired['a'])} B={len(fired['b'])}")
    version_tables_usable(version, case)
    if stats is not None:
        stats.case(f"pair:{cls_name}:{version}", case if version == "2.2" else None, labels=("two-gateways", cls_name))


def _options_worker(args):
    cls_name, seed_value = args
    common.setup_path()
    stats = common.Stats()
    opts = OPTIONS[cls_name]
    for r in range(len(opts) + 1):
        for subset in itertools.combinations(opts, r):
            try:
                construct_and_observe(cls_name, subset, seed_value + r, stats)
            except Violation as v:
                stats.violation(v.clause, v.case, v.detail)
    return stats


def _grid_worker(chunk):
    common.setup_path()
    stats = common.Stats()
    for arg in chunk:
        try:
            check_version_string(arg, stats)
        except Violation as v:
            stats.violation(v.clause, v.case, v.detail)
    return stats


def _junk_worker(args):
    seed_value, n = args
    common.setup_path()
    stats = common.Stats()
    common.run_given(stats, junk, lambda a: check_version_string(a, stats, "junk"), n, seed_value)
    return stats


def bucket(stats):
    """Keep one violation per (clause, class/arg-shape) so that the report stays readable."""
    seen, out = set(), []
    for v in stats.violations:
        key = (v["clause"], v["case"].get("cls"))
        if key in seen:
            continue
        seen.add(key)
        out.append(v)
    stats.violations = out


def timing_cases():
    """reconnect_timeout in effect on a simulated clock (the C20 simulators): the TCP link comes up after 0-4
    refused dials, every probe is answered at once; it must stay up, and a silent one must be dropped."""
    out = []
    for flavour in ("sync-tcp", "async-tcp"):
        for rt in (0.5, 2.0):
            for late in (0, 3, 4):
                out.append({"kind": "timing", "script": {"flavour": flavour, "rt": rt, "kind": "watchdog", "dials": ["fail"] * late + ["ok"], "latencies": [0.0] * 12, "silent_from": None, "events": []}})
            out.append({"kind": "timing", "script": {"flavour": flavour, "rt": rt, "kind": "watchdog", "dials": ["fail", "fail", "fail", "ok"], "latencies": [], "silent_from": 0.0, "events": []}})
    return out


def _timing_worker(case):
    common.setup_path()
    stats = common.Stats()
    try:
        check_timing(case, stats)
    except Violation as v:
        stats.violation(v.clause, v.case, v.detail)
    return stats


def check_timing(case, stats=None):
    from vf.checks import c20

    script = case["script"]
    try:
        c20.check_case(script)
    except Violation as v:
        raise Violation(f"option_not_honoured.reconnect_timeout.{v.clause}", case, f"reconnect_timeout={script['rt']} on {script['flavour']}, link up after {len(script['dials']) - 1} refused dials: {v.detail}") from v
    except common.HarnessError:
        raise
    except Exception as exc:  # pylint: disable=broad-except
        raise Violation(f"option_refused.reconnect_timeout.{type(exc).__name__}", case, f"a TCP gateway with reconnect_timeout={script['rt']} ({script['flavour']}) could not be built / started: {type(exc).__name__}: {exc}") from exc
    if stats is not None:
        stats.case(common.chash(script), {"timing": script["flavour"], "rt": script["rt"], "refused_dials_first": len(script["dials"]) - 1, "silent": script["silent_from"] is not None}, labels=("timing",))


TABLE_VERSIONS = ["1.4", "1.4.2", "1.5", "2.0", "2.0.5", "2.1", "2.2", "2.3"]
TABLE_ORDERS = [TABLE_VERSIONS, TABLE_VERSIONS[::-1], ["2.0.5", "1.4", "2.3", "1.5", "2.1", "1.4.2", "2.2", "2.0"], ["1.5", "2.2", "1.4.2", "2.0", "2.3", "2.1", "1.4", "2.0.5"]]


def child_matrix(order):
    """In a process whose library modules are freshly imported, children of every type are validated under the version
    strings of `order`, in that order: {version: {(child type, value type): accepted}}."""
    import importlib
    import sys

    from vf.ref import tables as T

    for name in [m for m in sys.modules if m == "mysensors" or m.startswith("mysensors.")]:
        del sys.modules[name]
    importlib.import_module("mysensors")
    from mysensors.const import get_const
    from mysensors.sensor import ChildSensor

    top = T.MAX_SUB["2.2"][T.SET]
    out = {}
    for version in order:
        const = get_const(version)
        floor = M.floor_version(version)
        row = out[version] = {}
        for pres in const.Presentation:
            child = ChildSensor(0, pres)
            try:
                child.validate(version, {})
                schema = child.get_schema(version)  # (built anew by every validate call: one build per child type here)
            except Exception:  # pylint: disable=broad-except
                schema = None
            for vt in range(top + 1):
                value = T.exemplars(T.payload_rule(floor, T.SET, vt))[0] if vt <= T.MAX_SUB[floor][T.SET] else "1"
                try:
                    schema({vt: value})
                    row[int(pres), vt] = True
                except Exception:  # pylint: disable=broad-except
                    row[int(pres), vt] = False
    return out


def check_tables(case, stats=None):
    """Which value types a child of a given type takes is selected by the version string alone: not by which
    other versions were used earlier in the process, and identically for every spelling of one version."""
    from vf.ref import tables as T

    first = None
    for order in case["orders"]:
        got = child_matrix(order)
        for version, row in got.items():
            floor = M.floor_version(version)
            beyond = sorted(k for k, ok in row.items() if ok and k[1] > T.MAX_SUB[floor][T.SET])
            if beyond:
                raise Violation("version_tables_contaminated", case, f"validated in the order {order}: a child of type {beyond[0][0]} validated as version {version!r} takes value type {beyond[0][1]}, which {floor} does not define")
            same = got.get(floor)
            if same is not None and same != row:
                diff = sorted(k for k in row if same.get(k) != row[k])[:3]
                raise Violation("version_spelling_selects_other_tables", case, f"validated in the order {order}: child validation as {version!r} differs from {floor!r} at (child type, value type) {diff}")
        if first is None:
            first = (order, got)
        elif got != first[1]:
            version = [v for v in got if got[v] != first[1][v]][0]
            diff = sorted(k for k in got[version] if got[version][k] != first[1][version][k])[:3]
            raise Violation("version_behaviour_depends_on_history", case, f"child validation as {version!r} differs at (child type, value type) {diff} between a process that used the versions in the order {first[0]} and one that used {order}")
    if stats is not None:
        stats.evaluations += sum(len(r) for r in first[1].values()) * len(case["orders"])
        stats.case(f"tables:{len(case['orders'])}", {"kind": "tables", "orders": len(case["orders"]), "cells_per_order": sum(len(r) for r in first[1].values())}, labels=("child-tables",))


def _tables_worker(case):
    common.setup_path()
    stats = common.Stats()
    try:
        check_tables(case, stats)
    except Violation as v:
        stats.violation(v.clause, v.case, v.detail)
    return stats


def check_case(case, stats=None):
    if case["kind"] == "tables":
        return check_tables(case, stats)
    if case["kind"] == "timing":
        return check_timing(case, stats)
    if case["kind"] == "pair":
        return two_gateways(case["cls"], case["version"], stats)
    if case["kind"] == "version":
        check_version_string(case["arg"], stats, "replay")
    else:
        construct_and_observe(case["cls"], tuple(case["subset"]), case["seed"], stats)


def main(tier):
    run = common.Run(PROP, tier, "exploration", RULE, exhaustive=True,
                     assumptions=["exhaustive = all option subsets of all six classes and the 260-string version grid; option VALUES and junk strings are drawn",
                                  "dial functions (serial_for_url, socket.create_connection, create_serial_connection, loop.create_connection) and sleep are fakes that record their arguments",
                                  "version strings that mix digits with other text or blanks are not pinned by the statement: constructed and probed, not compared"])
    for path in sorted(glob.glob(os.path.join(common.REPLAY_DIR, f"{PROP}-*.json"))):
        body = json.load(open(path, encoding="utf-8"))
        try:
            check_case(body["case"], run.stats)
        except Violation as v:
            run.stats.violation(v.clause, v.case, f"[regression {os.path.basename(path)}] {v.detail}")
    jobs = [(name, common.seed() * 1000 + i) for i, name in enumerate(OPTIONS)]
    for stats in common.pool_map(_options_worker, jobs):
        run.stats.merge(stats)
    for cls_name in OPTIONS:
        for version in ("1.4", "1.5", "2.0", "2.1", "2.2", "2.2.0", "2.3"):
            try:
                two_gateways(cls_name, version, run.stats)
            except Violation as v:
                run.stats.violation(v.clause, v.case, v.detail)
    grid = version_grid()
    for stats in common.pool_map(_grid_worker, [grid[i::16] for i in range(16)]):
        run.stats.merge(stats)
    n = 60 if tier == "quick" else 5000
    for stats in common.pool_map(_junk_worker, [(common.shard_seed(common.seed(), i), n) for i in range(8 if tier == "quick" else 16)]):
        run.stats.merge(stats)
    for stats in common.pool_map(_timing_worker, timing_cases()):
        run.stats.merge(stats)
    for stats in common.pool_map(_tables_worker, [{"kind": "tables", "orders": TABLE_ORDERS}]):
        run.stats.merge(stats)
    bucket(run.stats)
    return run.finish()


def replay(path):
    common.setup_path()
    body = json.load(open(path, encoding="utf-8"))
    try:
        check_case(body["case"])
    except Violation as v:
        print(f"VIOLATION property={PROP} replay={path}")
        print(f"  clause={v.clause} detail={v.detail}")
        return 1
    print(f"{PROP} replay {path}: holds")
    return 0
