"""Reference OTA arithmetic, written from the MySensors OTA description: little-endian
16-bit words in ASCII hex, 16-byte blocks, 128-byte flash pages padded with 0xFF,
CRC-16/MODBUS (poly 0xA001 reflected, init 0xFFFF, no final xor).
"""

BLOCK = 16
PAGE = 128

_TABLE = []
for _i in range(256):
    _c = _i
    for _ in range(8):
        _c = (_c >> 1) ^ 0xA001 if _c & 1 else _c >> 1
    _TABLE.append(_c)


def crc16_modbus(data):
    crc = 0xFFFF
    for byte in data:
        crc = (crc >> 8) ^ _TABLE[(crc ^ byte) & 0xFF]
    return crc


assert crc16_modbus(b"123456789") == 0x4B37  # published check value

_HEX = "0123456789abcdefABCDEF"


def parse_words(payload, count):
    """`count` little-endian uint16 from exactly 4*count ASCII hex digits, else None."""
    if not isinstance(payload, str) or len(payload) != 4 * count:
        return None
    if any(ch not in _HEX for ch in payload):
        return None
    out = []
    for i in range(count):
        lo = int(payload[4 * i : 4 * i + 2], 16)
        hi = int(payload[4 * i + 2 : 4 * i + 4], 16)
        out.append(lo | (hi << 8))
    return out


def words_hex(*words):
    return "".join(f"{w & 0xFF:02x}{(w >> 8) & 0xFF:02x}" for w in words)


def parse_hex_bytes(text):
    if len(text) % 2 or any(ch not in _HEX for ch in text):
        return None
    return bytes(int(text[i : i + 2], 16) for i in range(0, len(text), 2))


def allowed_paddings(length):
    """Total padded lengths the statement allows: image followed by 0xFF padding of at
    most one page, total a multiple of the page size."""
    first = -(-length // PAGE) * PAGE
    return [t for t in (first, first + PAGE) if 0 <= t - length <= PAGE and t > 0]


def check_config(image, fw, payload):
    """Validate a config-response payload for firmware `fw`=(type,ver) with `image`.

    Returns (blocks, crc) or raises ValueError describing the defect.
    """
    words = parse_words(payload, 4)
    if words is None:
        raise ValueError(f"config response payload {payload!r} is not 4 hex words")
    ftype, fver, blocks, crc = words
    if (ftype, fver) != tuple(fw):
        raise ValueError(f"config response advertises firmware {(ftype, fver)}, scheduled {tuple(fw)}")
    total = blocks * BLOCK
    if total not in allowed_paddings(len(image)):
        raise ValueError(f"advertised {blocks} blocks = {total} bytes for an image of {len(image)} bytes (allowed totals {allowed_paddings(len(image))})")
    padded = bytes(image) + b"\xff" * (total - len(image))
    want = crc16_modbus(padded)
    if crc != want:
        raise ValueError(f"advertised CRC {crc:#06x}, CRC-16/MODBUS of the padded image is {want:#06x}")
    return blocks, crc


def check_block(image, fw, blk, payload, blocks=None):
    """Validate a block-response payload; returns the 16 data bytes (or b'' beyond the end)."""
    if len(payload) < 12:
        raise ValueError(f"block response payload too short: {payload!r}")
    head = parse_words(payload[:12], 3)
    data = parse_hex_bytes(payload[12:])
    if head is None or data is None:
        raise ValueError(f"block response payload not hex: {payload!r}")
    if tuple(head) != (fw[0], fw[1], blk):
        raise ValueError(f"block response echoes {tuple(head)}, request was {(fw[0], fw[1], blk)}")
    start = blk * BLOCK
    if blocks is None:
        totals = allowed_paddings(len(image))
    else:
        totals = [blocks * BLOCK]
    ok = False
    for total in totals:
        padded = bytes(image) + b"\xff" * (total - len(image))
        want = padded[start : start + BLOCK]
        if data == want:
            ok = True
    if not ok:
        raise ValueError(f"block {blk}: served {data.hex()}, image has {(bytes(image) + bytes([255]) * PAGE * 2)[start:start + BLOCK].hex() if start < len(image) + 2 * PAGE else ''}")
    return data
