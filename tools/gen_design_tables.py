#!/venv/bin/python
"""Regenerate DESIGN.md §8 (sensitivity variants) and §9 (seeded regressions) from
tools/mutants.py, seeded/*/meta.json and seeded/notes.json."""
import glob
import importlib
import json
import os
import sys

HERE = os.path.dirname(os.path.dirname(os.path.abspath(__file__)))
sys.path.insert(0, os.path.join(HERE, "tools"))


def main():
    mutants = importlib.import_module("mutants").MUTANTS
    path = os.path.join(HERE, "DESIGN.md")
    text = open(path, encoding="utf-8").read()
    head = text[: text.index("## 8. Sensitivity")]
    total = sum(len(v) for v in mutants.values())
    sec8 = f"""## 8. Sensitivity: deliberately broken variants each check was validated against

`tools/mutate.py CNN` applies each textual variant of `tools/mutants.py` to a scratch copy of `/repo` (never to
`/repo`), runs the quick tier with `VERIF_REPO` pointing at the copy and compares with the expectation. "green"
entries are behaviour-preserving refactorings or changes outside the statement - negative controls that must NOT
alarm. All {total} entries behave as listed (quick tier, seed 1; re-run after every strengthening of a check).

"""
    for prop in sorted(mutants):
        caught = [m[0] for m in mutants[prop] if m[4] == "caught"]
        green = [m[0] for m in mutants[prop] if m[4] == "green"]
        sec8 += f"* **{prop}** caught ({len(caught)}): {', '.join(caught)}."
        if green:
            sec8 += f" Must stay green ({len(green)}): {', '.join(green)}."
        sec8 += "\n"
    notes = json.load(open(os.path.join(HERE, "seeded", "notes.json"), encoding="utf-8"))
    rows = []
    n_total = n_first = n_after = n_out = 0
    for d in sorted(glob.glob(os.path.join(HERE, "seeded", "C*"))):
        name = os.path.basename(d)
        meta = json.load(open(os.path.join(d, "meta.json"), encoding="utf-8"))
        conf = meta.get("confirmed", {})
        verdicts = [v["verdict"] for v in conf.get("checks", {}).values()]
        caught = sum(1 for v in verdicts if v == "caught")
        clause = ""
        for v in conf.get("checks", {}).values():
            if v.get("clauses"):
                clause = v["clauses"][0].split(" ")[0].replace("clause=", "")
                break
        summ = meta.get("summary", "").replace("|", "/").replace("\n", " ")[:260]
        need = meta.get("needs_to_manifest", "").replace("|", "/").replace("\n", " ")[:220]
        note = notes.get(name, "caught as built")
        n_total += 1
        if note.startswith("NOT detected"):
            n_out += 1
        elif note == "caught as built":
            n_first += 1
        else:
            n_after += 1
        rows.append(f"| `{name}` | {summ} **Needs:** {need} | {caught}/{len(verdicts)} seeds" + (f" (`{clause}`)" if clause else "") + f" | {note} |")
    sec9 = f"""
## 9. Regressions planted by independent sub-agents (`/verif/seeded/`)

Ten rounds of 20 fresh sub-agents (one per property and round) each got only the statement and quantifier of one
property and a private scratch worktree of `/repo` (nothing from `/verif`), and were asked for a small, plausible
change that breaks the property, keeps the 730 tests green and needs something specific to manifest; later rounds
were additionally told what the earlier agents had done for that property and asked for a different root
cause (interleaving, fault at one point, two cooperating sites, rarely used boundary, long history; round four:
process-global state, creation order, falsy / empty / maximal values, the less used flavour, version or format,
the second or third repetition; round five: interaction of two features, error paths, numeric boundaries one step
further, unusual but legitimate Python argument types, entry points called twice or in an unusual order; round six: a function
none of the earlier changes touched, rules for one sub-type or version, second-order effects, falsy versus absent,
rarely used public API, three or more of something, boundaries in time; round seven: incomplete memoisation,
numeric conversion details, copy versus reference, narrowed exception classes, str methods, defaults evaluated once;
round eight: operations repeated in the same state, the ack flag, rare internal sub-types, node versus gateway
version, counts of exactly 0 / 1 / 255, node or child id 0 / 254 / 255, clean-up paths, log calls that raise; round
nine: shared helpers, highest / lowest sub-types, unusual containers and value types, rule edges, state-dependent
defaults, identical consecutive messages, a second gateway object, the state after a swallowed exception; round ten: a free choice of root cause different from the nine before). Every change
was confirmed by `tools/seeded.py` on a scratch worktree (demo passes on the unchanged code, the suite passes with
the patch, the demo fails with the patch) before it was kept; the checks were then run against the patched
worktree with `VERIF_REPO` (three seeds). `meta.json` of each entry records exactly what was run and the verdicts.

| seeded change | what it breaks / what it needs | caught by (quick tier) | note |
|---|---|---|---|
""" + "\n".join(rows) + f"""

Summary: {n_total} confirmed changes; {n_first} were caught by the checks as they stood when the change arrived, {n_after}
more after the strengthening recorded in the notes (each strengthening was followed by a re-run of §8 and of the
earlier seeded changes of that property), {n_out} are deliberately not detected because they lie outside what the
statements pin or quantify over.
"""
    open(path, "w", encoding="utf-8").write(head + sec8 + sec9)
    print("DESIGN.md sections 8 and 9 regenerated:", total, "variants,", n_total, "seeded changes")


if __name__ == "__main__":
    main()
