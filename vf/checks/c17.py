"""C17 - MQTT topics and commands map one-to-one."""
import glob
import json
import os

from hypothesis import strategies as st

from vf.ref import tables as T
from vf import common, drive, persist
from vf.common import Violation
from vf.ref import codec

EXC_KINDS = ("runtime", "noargs", "oserror", "keyerror", "nonstr", "badstr")


class _BadStr(Exception):
    """An exception of a client library whose text cannot be produced."""

    def __str__(self):
        raise TypeError("no text for this error")


def client_error(rec, what):
    """What an MQTT client library may raise from publish / subscribe: with a message, without any argument,
    an OSError with errno, a KeyError, one with a non-string argument, one whose str() itself fails."""
    kind = rec.get("exc_kind", "runtime")
    if kind == "noargs":
        return TimeoutError()
    if kind == "oserror":
        return ConnectionResetError(104, "Connection reset by peer")
    if kind == "keyerror":
        return KeyError(what)
    if kind == "nonstr":
        return ValueError(b"\xff", 7)
    if kind == "badstr":
        return _BadStr()
    return RuntimeError(f"{what} raises on purpose")


PROP = "C17"
RULE = (
    "Hypothesis-generated cases of three kinds. map: in/out prefix over {letters, digits, '-', '/'} - empty, single "
    "level, nested, digit-only, and CONSTRUCTED FROM THE MESSAGE'S OWN LEVELS (the five levels, a rotation, a "
    "prefix/suffix of them) - x header in range x payload (text incl. ';', '/', '+', '#', blank-leading, empty) x "
    "QoS 0..2 x retain: send(encode(m)) must publish exactly once to out_prefix + '/n/c/t/a/s' with the payload "
    "unchanged, qos > 0 <=> ack = 1, retain as configured, and feeding the mirrored topic to recv() must queue "
    "exactly one job whose line is the original command. accept: a topic and mutations of it (level dropped/added, "
    "wrong prefix, proper prefix/suffix of the prefix, trailing slash, < 5 levels, empty): recv() queues a job <=> "
    "topic.rsplit('/', 5) has six parts and the first equals in_prefix; recv never raises. subs: histories of "
    "presentations (delivered with QoS 0 / 1 / 2) on a started gateway and states restored through start_persistence() then start(): every "
    "presentation/internal topic, every set/req topic of every presented or restored child and every stream topic "
    "of their nodes must be MATCHED by some subscribed filter (own MQTT '+'/'#' matcher); raising publish / "
    "subscribe callbacks must not stop the pump. Non-trivial = prefix non-empty and sharing >= 1 level with the "
    "message levels, or payload containing ';' or '/'; for subs >= 2 children on >= 2 nodes incl. a restored one."
)

_pchars = "abXY019-"
_level = st.text(_pchars, min_size=1, max_size=4)
_payload_chars = st.characters(exclude_categories=["Cs"], exclude_characters="\n\r")


@st.composite
def payloads(draw):
    kind = draw(st.integers(0, 6))
    if kind == 0:
        return ""
    if kind == 1:
        return draw(st.sampled_from(["a;b", ";", "1;2;3;4;5;6", "a/b", "/", "+", "#", "+/#", " lead", "0", "x;y/z"]))
    body = draw(st.text(_payload_chars, max_size=12))
    if body and body[-1].isspace():
        body += "."
    return body


@st.composite
def prefixes(draw, levels):
    kind = draw(st.integers(0, 9))
    if kind == 0:
        return ""
    if kind == 1:
        return draw(_level)
    if kind == 2:
        return "/".join(draw(st.lists(_level, min_size=2, max_size=4)))
    if kind == 3:
        return draw(st.sampled_from(["0", "1", "255", "0/0", "1/1/1/1/1", "3/0", "00"]))
    lv = [str(x) for x in levels]
    if kind == 4:
        return "/".join(lv)
    if kind == 5:
        r = draw(st.integers(1, 4))
        return "/".join(lv[r:] + lv[:r])
    if kind == 6:
        return "/".join(lv[: draw(st.integers(1, 4))])
    if kind == 7:
        return "/".join(lv[draw(st.integers(1, 4)):])
    if kind == 8:
        return draw(st.sampled_from(["a/", "/a", "a//b", "/", "//", "mygateway1-out", "mygateway1-in"]))
    return draw(_level) + "/" + "/".join(lv[:2])


@st.composite
def map_cases(draw):
    node, child = draw(st.integers(0, 255)), draw(st.integers(0, 255))
    cmd = draw(st.integers(0, 4))
    ack = draw(st.integers(0, 1))
    sub = draw(st.integers(0, 56))
    if draw(st.integers(0, 4)) == 0:  # small numbers collide with each other and with prefixes
        node, child, sub = draw(st.integers(0, 1)), draw(st.integers(0, 1)), draw(st.integers(0, 1))
    levels = [node, child, cmd, ack, sub]
    # commands that went through the SAME gateway just before: relatives of the tested one (a header whose
    # decimal text is a prefix / extension of it, the identical header, one field changed)
    earlier = []
    for _ in range(draw(st.integers(0, 3))):
        rel = list(levels)
        how = draw(st.sampled_from(["sub-prefix", "sub-extend", "same", "node-prefix", "ack", "child-extend"]))
        if how == "sub-prefix":
            rel[4] = int(str(sub)[:1])
        elif how == "sub-extend":
            rel[4] = min(56, sub * 10 + draw(st.integers(0, 9)))
        elif how == "node-prefix":
            rel[0] = int(str(node)[:1])
        elif how == "ack":
            rel[3] = 1 - ack
        elif how == "child-extend":
            rel[1] = min(255, child * 10 + draw(st.integers(0, 9)))
        earlier.append({"levels": rel, "payload": draw(payloads())})
    return {
        "kind": "map",
        "earlier": earlier,
        "levels": levels,
        "payload": draw(payloads()),
        "in_prefix": draw(prefixes(levels)),
        "out_prefix": draw(prefixes(levels)),
        "qos": draw(st.integers(0, 2)),
        "retain": draw(st.booleans()),
        "mutation": draw(st.sampled_from(["none", "drop", "add", "wrongprefix", "prefix-proper-prefix", "prefix-proper-suffix", "trailing", "short", "empty", "noslash", "extra-front"])),
        "mut_arg": draw(st.integers(0, 4)),
    }


@st.composite
def sub_cases(draw):
    version = draw(st.sampled_from(["2.0", "2.1", "2.2", "1.5"]))

    def net(pool):
        lines = []
        for nid in draw(st.lists(st.sampled_from(pool), min_size=0, max_size=3, unique=True)):
            # the version the NODE reports need not be the gateway's (older sketches, an empty or unusable string)
            lines.append(f"{nid};255;0;0;17;{draw(st.sampled_from(['2.0', '2.0', '1.4', '1.5', '1.5.1', '2.2', '2.3.2', '', 'x']))}")
            for cid in draw(st.lists(st.integers(0, 4), min_size=0, max_size=3, unique=True)):
                # every presentation type of the version - also the two node types presented on an ordinary child
                # (their payload has to be a version string)
                sub = draw(st.one_of(st.integers(0, T.MAX_SUB[version][T.PRESENTATION]), st.sampled_from([17, 18])))
                # delivered by the broker with QoS 0, 1 or 2 (what arrives with QoS > 0 is an ack = 1 message)
                lines.append(f"{nid};{cid};0;{draw(st.sampled_from([0, 0, 1]))};{sub};{'2.0' if sub in (17, 18) else 'd'}")
        return lines

    return {
        "kind": "subs",
        "version": version,
        "in_prefix": draw(prefixes([1, 1, 0, 0, 6])),
        "out_prefix": draw(_level),
        "restored": net([1, 2, 3]) if draw(st.booleans()) else [],
        # nodes that become known before start() (their children are presented afterwards, see "live")
        "prestart": [f"{n};255;0;0;17;2.0" for n in draw(st.lists(st.sampled_from([3, 4, 5, 200]), max_size=3, unique=True))] + (net([6, 7]) if draw(st.integers(0, 3)) == 0 else []),
        "persistence": draw(st.booleans()),
        "ext": draw(st.sampled_from(["json", "pickle"])),
        "live": net([3, 4, 5, 200]) + (["9;1;0;0;6;child of unknown node"] if draw(st.booleans()) else []),
        "sub_raises": draw(st.booleans()),
        "exc_kind": draw(st.sampled_from(EXC_KINDS)),
        "pub_raises": draw(st.booleans()),
        "qos2": draw(st.booleans()),
    }


cases = st.one_of(map_cases(), map_cases(), map_cases(), sub_cases())

# ---------------------------------------------------------------------------


def topic_matches(filt, topic):
    f, t = filt.split("/"), topic.split("/")
    for i, lev in enumerate(f):
        if lev == "#":
            return True
        if i >= len(t):
            return False
        if lev != "+" and lev != t[i]:
            return False
    return len(f) == len(t)


def mutate_topic(case, good, in_prefix):
    m, arg = case["mutation"], case["mut_arg"]
    parts = good.split("/")
    if m == "none":
        return good
    if m == "drop":
        idx = len(parts) - 1 - (arg % 5)
        return "/".join(parts[:idx] + parts[idx + 1:])
    if m == "add":
        idx = len(parts) - (arg % 6)
        return "/".join(parts[:idx] + ["7"] + parts[idx:])
    if m == "wrongprefix":
        return "zz" + good
    if m == "prefix-proper-prefix":
        return in_prefix[:-1] + good[len(in_prefix):] if in_prefix else good[1:]
    if m == "prefix-proper-suffix":
        return good[1:] if in_prefix else "x" + good
    if m == "trailing":
        return good + "/"
    if m == "short":
        return "/".join(parts[: 1 + arg])
    if m == "empty":
        return ""
    if m == "noslash":
        return good.replace("/", "")
    if m == "extra-front":
        return "q/" + good
    return good


def make_gateway(case, version="2.2", persistence_file=None):
    from mysensors.gateway_mqtt import MQTTGateway

    rec = {"pubs": [], "subs": [], "pub_raise": False, "sub_raise": False}

    def pub(topic, payload, qos, retain):
        rec["pubs"].append((topic, payload, qos, retain))
        if rec["pub_raise"]:
            raise client_error(rec, "publish")

    def sub(topic, callback, qos):
        rec["subs"].append((topic, qos))
        if rec["sub_raise"]:
            raise client_error(rec, "subscribe")

    kw = dict(in_prefix=case["in_prefix"], out_prefix=case["out_prefix"], retain=case.get("retain", True), protocol_version=version)
    if persistence_file:
        kw.update(persistence=True, persistence_file=persistence_file)
    gw = MQTTGateway(pub, sub, **kw)
    return gw, rec


def check_map(case, stats=None):
    gw, rec = make_gateway(case)
    levels = case["levels"]
    payload = case["payload"]
    command = ";".join(str(x) for x in levels) + ";" + payload + "\n"
    tr = gw.tasks.transport
    for prev in case.get("earlier", []):
        # earlier traffic through the same gateway object, both directions; its own mapping is not judged here
        cmd0 = ";".join(str(x) for x in prev["levels"]) + ";" + prev["payload"] + "\n"
        try:
            tr.send(cmd0)
            tr.recv(case["in_prefix"] + "/" + "/".join(str(x) for x in prev["levels"]), prev["payload"], 0)
        except Exception as exc:  # pylint: disable=broad-except
            raise Violation(f"send_raises.{type(exc).__name__}", case, f"earlier traffic {cmd0!r} raised {exc!r}") from exc
        del rec["pubs"][:]
        gw.tasks.queue.clear()
    try:
        tr.send(command)
    except Exception as exc:  # pylint: disable=broad-except
        raise Violation(f"send_raises.{type(exc).__name__}", case, f"transport.send({command!r}) raised {exc!r}") from exc
    want_topic = case["out_prefix"] + "/" + "/".join(str(x) for x in levels)
    if len(rec["pubs"]) != 1:
        raise Violation("publish_count", case, f"send({command!r}) published {len(rec['pubs'])} times")
    topic, pl, qos, retain = rec["pubs"][0]
    if topic != want_topic or pl != payload or retain is not case["retain"] or bool(qos and qos > 0) != (levels[3] == 1):
        raise Violation("publish_wrong", case, f"send({command!r}) published {(topic, pl, qos, retain)}, expected topic {want_topic!r}, payload {payload!r}, qos>0={levels[3] == 1}, retain={case['retain']}")
    # mirror: the same message arriving on the inbound side
    mirrored = case["in_prefix"] + topic[len(case["out_prefix"]):]
    in_qos = case["qos"]
    before = len(gw.tasks.queue)
    try:
        tr.recv(mirrored, payload, in_qos)
    except Exception as exc:  # pylint: disable=broad-except
        raise Violation(f"recv_raises.{type(exc).__name__}", case, f"recv({mirrored!r}) raised {exc!r}") from exc
    jobs = list(gw.tasks.queue)[before:]
    want_levels = list(levels)
    want_levels[3] = 1 if in_qos > 0 else 0
    want_line = ";".join(str(x) for x in want_levels) + ";" + payload
    if len(jobs) != 1:
        raise Violation("roundtrip_dropped", case, f"recv({mirrored!r}) with in_prefix {case['in_prefix']!r} queued {len(jobs)} jobs")
    func, args = jobs[0]
    if getattr(func, "__name__", "") != "logic" or len(args) != 1 or args[0].rstrip("\n") != want_line:
        raise Violation("roundtrip_differs", case, f"recv({mirrored!r}) queued {args!r}, expected {want_line!r}")
    # acceptance of a (mutated) topic
    mutated = mutate_topic(case, mirrored, case["in_prefix"])
    parts = mutated.rsplit("/", 5)
    should = len(parts) == 6 and parts[0] == case["in_prefix"]
    gw.tasks.queue.clear()
    try:
        tr.recv(mutated, payload, in_qos)
    except Exception as exc:  # pylint: disable=broad-except
        raise Violation(f"recv_raises.{type(exc).__name__}", case, f"recv({mutated!r}) [{case['mutation']}] raised {exc!r}") from exc
    got = len(gw.tasks.queue)
    if (got == 1) != should or got > 1:
        raise Violation("topic_acceptance", case, f"recv({mutated!r}) [{case['mutation']}] with in_prefix {case['in_prefix']!r}: queued {got} jobs, expected {'1' if should else '0'}")
    if stats is not None:
        lv = {str(x) for x in levels}
        shares = bool(case["in_prefix"]) and bool(set(case["in_prefix"].split("/")) & lv)
        nt = shares or ";" in payload or "/" in payload
        stats.case(common.chash(case) if nt else None, case, labels=("map", "mut-" + case["mutation"], "accepted" if should else "rejected") + (("prefix-shares-level",) if shares else ()))


def check_subs(case, stats=None):
    version = case["version"]
    with persist.Scratch() as tmp, persist.TimerPatch() as fake:
        fake.Thread = _NoThread
        path = os.path.join(tmp, f"net.{case['ext']}")
        restored_children = set()
        if case["restored"]:
            gw0, _ = make_gateway(case, version, path)
            gw0.start_persistence()
            for line in case["restored"]:
                try:
                    gw0.tasks.add_job(gw0.logic, line)
                    while gw0.tasks.queue:
                        gw0.tasks.transport.send(gw0.tasks.run_job())
                except Exception as exc:  # pylint: disable=broad-except
                    raise Violation(f"pump_raises.{type(exc).__name__}", case, f"processing {line!r} (first run, before the restart) raised {exc!r}") from exc
            gw0.stop()
        use_persistence = bool(case["restored"]) or case.get("persistence", True)
        gw, rec = make_gateway(case, version, path if use_persistence else None)
        rec["sub_raise"] = case["sub_raises"]
        rec["exc_kind"] = case.get("exc_kind", "runtime")
        rec["pub_raise"] = case["pub_raises"]
        try:
            if use_persistence:
                gw.start_persistence()
            # traffic handled before start() (e.g. a node presentation delivered by an early recv)
            for line in case.get("prestart", []):
                gw.tasks.transport.recv(*_to_mqtt(case["in_prefix"], line, case.get("qos2", False)))
                while gw.tasks.queue:
                    gw.tasks.transport.send(gw.tasks.run_job())
            gw.start()
        except Exception as exc:  # pylint: disable=broad-except
            raise Violation(f"start_raises.{type(exc).__name__}", case, f"start raised {exc!r}") from exc
        for nid, s in gw.sensors.items():
            for cid in s.children:
                restored_children.add((nid, cid))
        for line in case["live"]:
            try:
                gw.tasks.transport.recv(*_to_mqtt(case["in_prefix"], line, case.get("qos2", False)))
                while gw.tasks.queue:
                    gw.tasks.transport.send(gw.tasks.run_job())
            except Exception as exc:  # pylint: disable=broad-except
                raise Violation(f"pump_raises.{type(exc).__name__}", case, f"processing {line!r} with raising callbacks (sub={case['sub_raises']}, pub={case['pub_raises']}) raised {exc!r}") from exc
        # later traffic still flows
        mark = len(rec["pubs"])
        gw.tasks.transport.recv(*_to_mqtt(case["in_prefix"], "0;255;3;0;6;0"))
        try:
            while gw.tasks.queue:
                gw.tasks.transport.send(gw.tasks.run_job())
        except Exception as exc:  # pylint: disable=broad-except
            raise Violation(f"pump_raises.{type(exc).__name__}", case, f"config request after raising callbacks raised {exc!r}") from exc
        if len(rec["pubs"]) != mark + 1:
            raise Violation("traffic_stops", case, "a config request after the history was not answered")
        filters = [f for f, _ in rec["subs"]]
        children = {(nid, cid) for nid, s in gw.sensors.items() for cid in s.children}
        pre = case["in_prefix"]
        needed = []
        for n, c in [(0, 255), (7, 3), (255, 255), (200, 0)]:
            for a in (0, 1):
                needed.append(f"{pre}/{n}/{c}/0/{a}/17")
                needed.append(f"{pre}/{n}/{c}/3/{a}/6")
        for nid, cid in sorted(children):
            for a in (0, 1):
                for s_ in (0, 2, 47):
                    needed.append(f"{pre}/{nid}/{cid}/1/{a}/{s_}")
                    needed.append(f"{pre}/{nid}/{cid}/2/{a}/{s_}")
            needed.append(f"{pre}/{nid}/255/4/0/0")
            needed.append(f"{pre}/{nid}/255/4/0/2")
        for topic in needed:
            if not any(topic_matches(f, topic) for f in filters):
                origin = "restored" if tuple(int(x) for x in topic[len(pre) + 1:].split("/")[:2]) in restored_children else "presented"
                raise Violation(f"subscription_missing.{origin}", case, f"topic {topic!r} is matched by none of the {len(filters)} subscribed filters {filters[:12]}")
        gw.stop()
    if stats is not None:
        nodes = {n for n, _ in children}
        nt = len(children) >= 2 and len(nodes) >= 2 and bool(restored_children)
        stats.case(common.chash(case) if nt else None, case, labels=("subs", "restored" if restored_children else "fresh") + (("prestart",) if case.get("prestart") else ()) + (("no-persistence",) if not use_persistence else ()) + (("sub-raises",) if case["sub_raises"] else ()) + (("pub-raises",) if case["pub_raises"] else ()))


class _NoThread:
    """threading.Thread stand-in: the poll thread is not started (the harness pumps)."""

    def __init__(self, target=None, args=(), **kw):
        self.target = target

    def start(self):
        return None


def _to_mqtt(in_prefix, line, qos2=False):
    f = codec.decode(line)
    return in_prefix + "/" + "/".join(str(x) for x in f[:5]), f[5], (2 if qos2 and f[3] else f[3])


def check_case(case, stats=None):
    if case["kind"] == "map":
        check_map(case, stats)
    else:
        check_subs(case, stats)


def _shard(args):
    seed_value, n = args
    common.setup_path()
    stats = common.Stats()
    common.run_given(stats, cases, lambda c: check_case(c, stats), n, seed_value, shrink=True)
    return stats


def main(tier):
    run = common.Run(PROP, tier, "exploration", RULE, assumptions=["MQTT filter semantics ('+' one level, '#' rest) implemented in the harness", "the poll thread is not started (threading.Thread inside mysensors.task replaced); the harness pumps"])
    for path in sorted(glob.glob(os.path.join(common.REPLAY_DIR, f"{PROP}-*.json"))):
        body = json.load(open(path, encoding="utf-8"))
        try:
            check_case(body["case"], run.stats)
        except Violation as v:
            run.stats.violation(v.clause, v.case, f"[regression {os.path.basename(path)}] {v.detail}")
    shards, n = (16, 250) if tier == "quick" else (16, 20000)
    jobs = [(common.shard_seed(common.seed(), i), n) for i in range(shards)]
    for stats in common.pool_map(_shard, jobs):
        run.stats.merge(stats)
    return run.finish()


def replay(path):
    common.setup_path()
    body = json.load(open(path, encoding="utf-8"))
    try:
        check_case(body["case"])
    except Violation as v:
        print(f"VIOLATION property={PROP} replay={path}")
        print(f"  clause={v.clause} detail={v.detail}")
        return 1
    print(f"{PROP} replay {path}: holds")
    return 0
