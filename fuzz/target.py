#!/venv/bin/python
"""atheris targets (coverage-guided fuzzing). usage: target.py c01|c02 <libFuzzer args...>

The semantic oracle runs INSIDE the target (the same check_case / run_ops the Hypothesis
tier uses); a violation is written as a replay JSON to $VF_FUZZ_OUT and then raised so
that libFuzzer stops. Counters are flushed to $VF_FUZZ_OUT/stats.json periodically
(atexit handlers do not run under atheris).
"""
import json
import os
import sys

HERE = os.path.dirname(os.path.dirname(os.path.abspath(__file__)))
sys.path.insert(0, HERE)
sys.path.insert(0, os.environ.get("VERIF_REPO", "/repo"))
sys.path.append(os.path.join(HERE, ".deps"))
import atheris  # noqa: E402

with atheris.instrument_imports(include=["mysensors"]):
    import mysensors  # noqa: F401,E402
    import mysensors.gateway_mqtt  # noqa: F401,E402
    import mysensors.message  # noqa: F401,E402

from vf import common  # noqa: E402

common.setup_path()  # verifies that mysensors really came from the repository under test

from vf.checks import c01, c02  # noqa: E402
from vf.ref import tables as T  # noqa: E402

OUT = os.environ.get("VF_FUZZ_OUT", "/tmp/vf_fuzz_out")
os.makedirs(OUT, exist_ok=True)
STATE = {"n": 0, "nontrivial": set(), "samples": []}


def flush():
    with open(os.path.join(OUT, "stats.json"), "w", encoding="utf-8") as fh:
        json.dump({"evaluations": STATE["n"], "nontrivial": sorted(STATE["nontrivial"])[:200000], "samples": STATE["samples"][:3]}, fh)


def record(stats):
    STATE["n"] += 1
    STATE["nontrivial"] |= stats.nontrivial
    if stats.samples and len(STATE["samples"]) < 3:
        STATE["samples"].append(stats.samples[0])
    if STATE["n"] % (500 if sys.argv[1] == "c01" else 5000) == 0:
        flush()


def violation(v):
    flush()
    path = os.path.join(OUT, f"violation-{common.chash([v.clause, v.case])}.json")
    with open(path, "w", encoding="utf-8") as fh:
        json.dump({"clause": v.clause, "case": v.case, "detail": v.detail}, fh, default=common._default)
    raise v


def fuzz_c02(data):
    text = data.decode("utf-8", "replace")
    if "\n" in text.rstrip("\n") or any(0xD800 <= ord(ch) <= 0xDFFF for ch in text):
        return
    stats = common.Stats()
    try:
        c02.check_case({"kind": "dec", "line": text}, stats)
    except common.Violation as v:
        violation(v)
    record(stats)


TEMPLATES = [
    "{n};255;0;0;17;2.0", "{n};{c};0;0;{s};desc", "{n};{c};1;0;{s};{p}", "{n};{c};2;0;{s};", "{n};255;3;0;0;{b}",
    "{n};255;3;0;1;", "255;255;3;0;3;", "{n};255;3;0;6;0", "{n};255;3;0;11;{p}", "{n};255;3;0;22;{b}", "{n};255;3;0;32;{b}",
    "{n};255;4;0;0;{h}", "{n};255;4;0;2;{h}", "{n};255;3;0;14;{p}", "{n};255;3;0;21;{b}",
]


def fuzz_c01(data):
    fdp = atheris.FuzzedDataProvider(data)
    head = fdp.ConsumeIntInRange(0, 19)
    version = T.VERSIONS[head % 5]
    flavour = c01.FLAVOURS[head // 5]
    ops = []
    while fdp.remaining_bytes() > 0 and len(ops) < 24:
        kind = fdp.ConsumeIntInRange(0, 9)
        n = fdp.PickValueInList([1, 2, 0, 254, 255])
        c = fdp.PickValueInList([0, 1, 2, 255])
        if kind <= 5:
            tpl = TEMPLATES[fdp.ConsumeIntInRange(0, len(TEMPLATES) - 1)]
            text = tpl.format(n=n, c=c, s=fdp.ConsumeIntInRange(0, 58), b=fdp.ConsumeIntInRange(-1, 101),
                              p=fdp.ConsumeUnicodeNoSurrogates(fdp.ConsumeIntInRange(0, 8)), h=fdp.ConsumeBytes(fdp.ConsumeIntInRange(0, 12)).hex())
            ops.append({"op": "line", "text": text.replace("\n", " ")})
        elif kind == 6:
            ops.append({"op": "line", "text": fdp.ConsumeUnicodeNoSurrogates(fdp.ConsumeIntInRange(0, 30)).replace("\n", " ")})
        elif kind == 7:
            ops.append({"op": "set", "n": n, "c": c, "vt": fdp.ConsumeIntInRange(0, 57), "value": fdp.ConsumeUnicodeNoSurrogates(fdp.ConsumeIntInRange(0, 6)),
                        "vt_kind": fdp.PickValueInList(["int", "str"])})
        elif kind == 8:
            ops.append({"op": "fw", "nids": [n], "type": fdp.ConsumeIntInRange(0, 2), "ver": fdp.ConsumeIntInRange(0, 2),
                        "image": {"len": fdp.ConsumeIntInRange(1, 200), "seed": fdp.ConsumeIntInRange(0, 50), "fill": "random"}})
        else:
            ops.append({"op": "cb_raise", "value": fdp.ConsumeBool()})
    if not ops:
        return
    case = {"version": version, "flavour": flavour, "ops": ops}
    stats = common.Stats()
    try:
        c01.run_ops(case, stats)
    except common.Violation as v:
        violation(v)
    record(stats)


def main():
    target = sys.argv[1]
    argv = [sys.argv[0]] + sys.argv[2:]
    atheris.Setup(argv, {"c01": fuzz_c01, "c02": fuzz_c02}[target])
    atheris.Fuzz()


if __name__ == "__main__":
    main()
