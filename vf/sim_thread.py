"""Simulated world for the threaded gateways (C20): the real connect threads, the real
pyserial ReaderThread / TCPTransport and the real poll thread run over fake devices
and a discrete-event clock.

Every blocking point of every thread (sleep, read, dial, idle poll, join) goes through
Sim.block(); virtual time advances only when every live thread is blocked, to the
earliest wake-up not beyond the horizon the harness asked for. Events are applied and
dials are granted at quiescent points only.
"""
import threading

from vf.common import HarnessError

_REAL_START = threading.Thread.start
_REAL_JOIN = threading.Thread.join


class Sim:
    def __init__(self):
        self.cv = threading.Condition()
        self.now = 1000.0
        self.live = set()  # Thread objects started while the world is active
        self.blocked = {}  # Thread -> (kind, predicate, wake)
        self.errors = []
        self.harness = threading.current_thread()
        self.closing = False

    # -- called from simulated threads ------------------------------------------------
    def block(self, kind, predicate, wake=None):
        me = threading.current_thread()
        if me is self.harness or me not in self.live:
            # the harness thread (or a foreign thread): must not wait for virtual time
            return predicate()
        with self.cv:
            self.blocked[me] = (kind, predicate, wake)
            self.cv.notify_all()
            try:
                while not (predicate() or self.closing):
                    self.cv.wait()
            finally:
                self.blocked.pop(me, None)
                self.cv.notify_all()
        return True

    def sleep(self, secs, extra=None):
        wake = self.now + max(0.0, secs)
        self.block("sleep", lambda: self.now >= wake - 1e-12 or (extra is not None and extra()), wake)

    def poke(self):
        with self.cv:
            self.cv.notify_all()

    # -- called from the harness -----------------------------------------------------------
    def _quiescent(self):
        for t in list(self.live):
            if not t.is_alive() and t not in self.blocked and getattr(t, "_vf_started", False) and getattr(t, "_vf_finished", False):
                self.live.discard(t)
        for t in self.live:
            ent = self.blocked.get(t)
            if ent is None:
                return False
            try:
                if ent[1]():
                    return False
            except Exception:  # pylint: disable=broad-except
                return False
        return True

    def wait_quiescent(self, timeout=20.0):
        with self.cv:
            self.cv.notify_all()
            ok = self.cv.wait_for(self._quiescent, timeout=timeout)
            if not ok:
                state = {t.name: (self.blocked[t][0] if t in self.blocked else "RUNNING") for t in self.live}
                raise HarnessError(f"simulation does not become quiescent: {state}")

    def next_wake(self):
        wakes = [ent[2] for ent in self.blocked.values() if ent[2] is not None]
        return min(wakes) if wakes else None

    def set_time(self, t):
        with self.cv:
            self.now = t
            self.cv.notify_all()


class FakeTime:
    """Stand-in for the time module in gateway_serial / gateway_tcp."""

    def __init__(self, sim):
        self._sim = sim

    def time(self):
        return self._sim.now

    def sleep(self, secs):
        me = threading.current_thread()
        # a reader thread that has been told to stop does not finish its nap
        self._sim.sleep(secs, extra=lambda: getattr(me, "alive", True) is False)


class PollTime:
    """Stand-in for the time module in mysensors.task: the idle sleep of the poll loop
    blocks until there is work (or stop), instead of waking every 20 ms."""

    def __init__(self, sim, world):
        self._sim, self._world = sim, world

    def sleep(self, secs):
        tasks = self._world.gw.tasks
        self._sim.block("poll-idle", lambda: bool(tasks.queue) or tasks._stop_event.is_set())  # pylint: disable=protected-access

    def time(self):
        return self._sim.now


class FakeConn:
    """Common part of the fake serial port and the fake socket."""

    def __init__(self, world, cid):
        self.world, self.cid = world, cid
        self.inbox = []
        self.error = None  # exception raised by the next read
        self.eof = False
        self.is_open = True
        self.closing = False
        self.cancelled = False
        self.write_error = None
        self.writes = []
        self.reader = None
        self.peer_gone = False

    # bookkeeping ---------------------------------------------------------------------
    def _end(self, why, exc):
        if self.closing:
            return
        self.closing = True
        w = self.world
        w.log.append((w.sim.now, "conn-end", self.cid, why, repr(exc)))
        w.ended.append({"cid": self.cid, "t": w.sim.now, "why": why, "exc": exc})

    def close(self):
        self.is_open = False
        self._end("closed-by-user" if self.world.user_closing else "closed-by-gateway", None)
        self.world.sim.poke()

    def _do_write(self, data):
        w = self.world
        if not self.is_open:
            import serial

            raise serial.PortNotOpenError()
        if self.write_error is not None:
            exc, self.write_error = self.write_error, None
            self._end("write-error", exc)
            raise exc
        self.writes.append((w.sim.now, bytes(data)))
        w.log.append((w.sim.now, "write", self.cid, bytes(data)))
        w.device_received(self, bytes(data))
        return len(data)

    def _readable(self):
        return bool(self.inbox) or self.error is not None or self.eof or self.cancelled or not self.is_open


class FakeSerial(FakeConn):
    timeout = 1

    @property
    def in_waiting(self):
        return sum(len(x) for x in self.inbox)

    def read(self, size=1):
        self.world.sim.block("read", self._readable)
        if self.cancelled:
            self.cancelled = False
            return b""
        if self.error is not None:
            exc, self.error = self.error, None
            self._end("peer-error", exc)
            raise exc
        if not self.is_open:
            import serial

            raise serial.PortNotOpenError()
        if self.inbox:
            return self.inbox.pop(0)
        return b""

    def cancel_read(self):
        self.cancelled = True
        self.world.sim.poke()

    def write(self, data):
        return self._do_write(data)


class FakeSocket(FakeConn):
    def setblocking(self, flag):
        return None

    def recv(self, size):
        if self.error is not None:
            exc, self.error = self.error, None
            self._end("peer-error", exc)
            raise exc
        if not self.is_open:
            raise OSError(9, "Bad file descriptor")
        if self.inbox:
            return self.inbox.pop(0)
        return b""

    def sendall(self, data):
        if not self.is_open:
            raise OSError(9, "Bad file descriptor")
        self._do_write(data)

    def fileno(self):
        return 1000 + self.cid


class World:
    def __init__(self, kind, reconnect_timeout, version="2.2", save_fails=False):
        import mysensors.gateway_serial as gs
        import mysensors.gateway_tcp as gt
        import mysensors.mysensors as api
        import mysensors.task as task

        self.kind, self.rt = kind, reconnect_timeout
        self.sim = Sim()
        self.clock = self  # so that world.clock.t works like in the asyncio world
        self.t0 = self.sim.now
        self.log, self.dials, self.conns, self.ended, self.made, self.lost, self.probes = [], [], [], [], [], [], []
        self.dial_script, self.probe_latency = [], []
        self.silent_from = None
        self.pending_dials = []
        self.timers = []  # (due, conn, data) answers of the simulated device
        self.user_closing = False
        self.stopped_at = None
        self.thread_errors = []
        self._mods = (gs, gt, task)
        self._saved = {"gs.time": gs.time, "gt.time": gt.time, "task.time": task.time, "gt.socket": gt.socket, "gt.select": gt.select,
                       "serial_for_url": gs.serial.serial_for_url}
        world = self
        sim = self.sim

        def start(thread):
            if threading.current_thread() is sim.harness or threading.current_thread() in sim.live:
                run = thread.run

                def wrapped():
                    try:
                        run()
                    except BaseException as exc:  # pylint: disable=broad-except
                        world.thread_errors.append((thread.name, exc))
                    finally:
                        with sim.cv:
                            thread._vf_finished = True
                            sim.live.discard(thread)
                            sim.blocked.pop(thread, None)
                            sim.cv.notify_all()

                thread.run = wrapped
                thread._vf_started = True
                thread.daemon = True
                conn = getattr(thread, "serial", None)
                if isinstance(conn, FakeConn):
                    conn.reader = thread
                with sim.cv:
                    sim.live.add(thread)
            return _REAL_START(thread)

        def join(thread, timeout=None):
            if thread is threading.current_thread():
                raise RuntimeError("cannot join current thread")  # what the real join does
            if thread in sim.live or getattr(thread, "_vf_started", False):
                sim.block("join", lambda: getattr(thread, "_vf_finished", False))
                me = threading.current_thread()
                if me is sim.harness:
                    # the harness may not wait for virtual time; give the thread real time to end
                    return _REAL_JOIN(thread, 5)
            return _REAL_JOIN(thread, timeout)

        threading.Thread.start = start
        threading.Thread.join = join
        gs.time = FakeTime(sim)
        gt.time = FakeTime(sim)
        task.time = PollTime(sim, self)

        class SocketShim:
            timeout = gt.socket.timeout
            error = OSError

            @staticmethod
            def create_connection(address, timeout=None, **kw):
                return world._dial(("tcp",) + tuple(address), timeout)

        class SelectShim:
            @staticmethod
            def select(rlist, wlist, xlist, timeout=None):
                sock = rlist[0]
                if not sock.is_open:
                    raise OSError(9, "Bad file descriptor")
                return ([sock] if sock._readable() else [], [sock], [])

        gt.socket = SocketShim
        gt.select = SelectShim
        gs.serial.serial_for_url = lambda port, baud=None, **kw: world._dial(("serial", port, baud), None)
        # a gateway with persistence whose final save (inside stop()) fails: disk full
        pkw = {}
        if save_fails:
            import tempfile

            self._pdir = tempfile.mkdtemp(prefix="vf_c20_")
            pkw = {"persistence": True, "persistence_file": self._pdir + "/net.json"}
        if kind == "serial":
            self.gw = api.SerialGateway("/dev/ttyFAKE", reconnect_timeout=reconnect_timeout, protocol_version=version, **pkw)
        else:
            self.gw = api.TCPGateway("10.0.0.1", reconnect_timeout=reconnect_timeout, protocol_version=version, **pkw)
        self._arm_save_failure(save_fails)
        self.cb_epoch = 0
        self.swap_callbacks(first=True)

    @property
    def t(self):
        return self.sim.now

    # -- callbacks ------------------------------------------------------------------------
    def _on_made(self, gw):
        self.made.append({"t": self.sim.now, "gw": gw})
        self.log.append((self.sim.now, "on_conn_made"))

    def _on_lost(self, gw, exc):
        self.lost.append({"t": self.sim.now, "gw": gw, "exc": exc})
        self.log.append((self.sim.now, "on_conn_lost", repr(exc)))

    # -- dialling ---------------------------------------------------------------------------
    def _dial(self, target, timeout):
        import serial

        rec = {"t": self.sim.now, "outcome": None, "end": None, "target": target, "granted": False}
        if self.stopped_at is not None:
            rec["after_stop"] = True
        self.dials.append(rec)
        self.pending_dials.append(rec)
        self.log.append((self.sim.now, "dial", "?"))
        self.sim.block("dial", lambda: rec["granted"])
        outcome = rec["outcome"]
        if outcome == "timeout":
            self.sim.sleep(timeout if timeout else self.rt)
            rec["end"] = self.sim.now
            raise self._mods[1].socket.timeout("timed out")
        rec["end"] = self.sim.now
        if outcome == "fail":
            if target[0] == "serial":
                raise serial.SerialException("could not open port")
            raise OSError(111, "Connection refused")
        cls = FakeSerial if target[0] == "serial" else FakeSocket
        conn = cls(self, len(self.conns))
        self.conns.append(conn)
        self.log.append((self.sim.now, "established", conn.cid))
        return conn

    def _grant_dials(self):
        granted = False
        while self.pending_dials:
            rec = self.pending_dials.pop(0)
            outcome = self.dial_script.pop(0) if self.dial_script else "ok"
            if outcome == "timeout" and rec["target"][0] == "serial":
                outcome = "fail"
            if self.gw.tasks.transport.protocol is None and outcome == "ok":
                outcome = "fail"  # nothing to connect the port to (not pinned by the statement)
            rec["outcome"] = outcome
            self.log.append((self.sim.now, "dial-outcome", outcome))
            with self.sim.cv:
                rec["granted"] = True
                self.sim.cv.notify_all()
            granted = True
        return granted

    # -- simulated gateway device -------------------------------------------------------------
    def device_received(self, conn, data):
        if conn.peer_gone:
            return
        for line in data.split(b"\n"):
            if line.startswith(b"0;255;3;0;2;"):
                idx = len(self.probes)
                latency = self.probe_latency[idx] if idx < len(self.probe_latency) else 0.0
                if self.silent_from is not None and self.sim.now >= self.silent_from:
                    latency = None
                self.probes.append({"t": self.sim.now, "cid": conn.cid, "latency": latency})
                if latency is not None:
                    self.timers.append((self.sim.now + latency, conn, b"0;255;3;0;2;2.3.2\n"))

    def _fire_timers(self):
        fired = False
        due = [x for x in self.timers if x[0] <= self.sim.now + 1e-12]
        for item in due:
            self.timers.remove(item)
            _, conn, data = item
            if conn.is_open and not conn.closing:
                conn.inbox.append(data)
                fired = True
        if fired:
            self.sim.poke()
        return fired

    # -- driving ----------------------------------------------------------------------------------
    def settle(self):
        for _ in range(200):
            self.sim.wait_quiescent()
            if self._grant_dials() or self._fire_timers():
                continue
            return
        raise HarnessError("settle does not converge")

    def advance(self, seconds):
        target = self.sim.now + seconds
        guard = 0
        while True:
            self.settle()
            nxt = self.sim.next_wake()
            tnext = min([x[0] for x in self.timers] + ([nxt] if nxt is not None else []) + [target])
            if tnext >= target - 1e-12:
                self.sim.set_time(target)
                self.settle()
                return
            self.sim.set_time(max(tnext, self.sim.now))
            guard += 1
            if guard > 200000:
                raise HarnessError("advance does not terminate")

    def start(self):
        self.gw.start()
        self.settle()

    def swap_callbacks(self, first=False):
        """The application assigns new on_conn_made / on_conn_lost callbacks (documented attributes)."""
        if not first:
            self.cb_epoch += 1
        epoch = self.cb_epoch

        def made(gw):
            self._on_made(gw)
            self.made[-1].update(epoch=epoch, current=self.cb_epoch)

        def lost(gw, exc):
            self._on_lost(gw, exc)
            self.lost[-1].update(epoch=epoch, current=self.cb_epoch)

        self.gw.on_conn_made = made
        self.gw.on_conn_lost = lost

    def _arm_save_failure(self, save_fails):
        self.stop_raised = None
        if not save_fails:
            return

        def no_space():
            raise OSError(28, "No space left on device")

        self.gw.tasks.persistence.save_sensors = no_space

    def stop(self):
        live = self.live_conn()
        self.user_closing = True
        try:
            self.gw.stop()
        except OSError as exc:
            if "No space left" not in str(exc):
                raise
            self.stop_raised = exc  # the injected save failure; stop() must have shut the link down regardless
        finally:
            self.user_closing = False
        self.stopped_at = self.sim.now
        self.stop_marks = {"dials": len(self.dials), "made": len(self.made), "lost": len(self.lost), "log": len(self.log), "live": live is not None}
        self.settle()
        # the close callback of the connection stop() itself closed belongs to stop()
        self.stop_marks["lost_at_return"] = len(self.lost)

    def user_disconnect(self):
        self.user_closing = True
        try:
            self.gw.tasks.transport.disconnect()
        finally:
            self.user_closing = False

    def after_stop(self):
        m = self.stop_marks
        writes = [e for e in self.log[m["log"]:] if e[1] == "write"]
        return {
            "dials": len(self.dials) - m["dials"],
            "made": len(self.made) - m["made"],
            "lost": len(self.lost) - m["lost"],
            "allowed_lost": 1 if m["live"] else 0,
            "writes": writes,
        }

    def errors(self):
        return list(self.thread_errors)

    def loss_delivered(self, cid):
        conn = self.conns[cid]
        return conn.reader is not None and getattr(conn.reader, "_vf_finished", False)

    def live_conn(self):
        for c in reversed(self.conns):
            if not c.closing and c.is_open and c.reader is not None and not getattr(c.reader, "_vf_finished", False):
                return c
        return None

    def peer_data(self, conn, data):
        conn.inbox.append(data)
        self.sim.poke()

    def peer_abort(self, conn, exc):
        import serial

        if isinstance(conn, FakeSerial) and not isinstance(exc, serial.SerialException):
            exc = serial.SerialException(str(exc))
        conn.error = exc
        self.sim.poke()

    def peer_eof(self, conn):
        conn.eof = True
        conn.peer_gone = True
        self.sim.poke()

    def fail_next_write(self, conn, exc):
        import serial

        if isinstance(conn, FakeSerial):
            exc = serial.SerialException(str(exc))
        conn.write_error = exc

    def close(self):
        gs, gt, task = self._mods
        if getattr(self, "_pdir", None):
            import shutil

            shutil.rmtree(self._pdir, ignore_errors=True)
        try:
            if self.stopped_at is None:
                try:
                    self.user_closing = True
                    self.gw.tasks._stop_event.set()  # pylint: disable=protected-access
                    self.gw.tasks.transport.protocol = None
                    for c in self.conns:
                        c.is_open = False
                        c.cancelled = True
                except Exception:  # pylint: disable=broad-except
                    pass
            with self.sim.cv:
                self.sim.closing = True
                self.sim.cv.notify_all()
            for rec in self.pending_dials:
                rec["outcome"], rec["granted"] = "fail", True
            self.sim.poke()
            for t in list(self.sim.live):
                _REAL_JOIN(t, 2)
        finally:
            threading.Thread.start = _REAL_START
            threading.Thread.join = _REAL_JOIN
            gs.time, gt.time, task.time = self._saved["gs.time"], self._saved["gt.time"], self._saved["task.time"]
            gt.socket, gt.select = self._saved["gt.socket"], self._saved["gt.select"]
            gs.serial.serial_for_url = self._saved["serial_for_url"]
