#!/venv/bin/python
"""Sensitivity testing: apply a textual mutant to a scratch copy of /repo and run a check on it.

usage: tools/mutate.py C02 [--tests] [--only NAME] [--tier quick]

Mutants live in tools/mutants.py: MUTANTS[prop] = [(name, file, old, new, expect)], expect in
{"caught", "green"} (green = behaviour-preserving negative control). A scratch copy is made under
/tmp/vf_mut.<pid>/ and removed afterwards. /repo itself is never touched.
"""
import argparse
import os
import shutil
import subprocess
import sys

HERE = os.path.dirname(os.path.dirname(os.path.abspath(__file__)))
sys.path.insert(0, os.path.dirname(os.path.abspath(__file__)))


def make_copy(dst):
    if os.path.exists(dst):
        shutil.rmtree(dst)
    os.makedirs(dst)
    for name in ("mysensors", "tests", "setup.cfg", "setup.py", "README.md", "tox.ini"):
        src = os.path.join("/repo", name)
        if os.path.isdir(src):
            shutil.copytree(src, os.path.join(dst, name), ignore=shutil.ignore_patterns("__pycache__"))
        elif os.path.exists(src):
            shutil.copy(src, dst)


def apply(dst, file, old, new):
    path = os.path.join(dst, file)
    text = open(path, encoding="utf-8").read()
    if text.count(old) != 1:
        raise ValueError(f"mutant anchor occurs {text.count(old)}x in {file}: {old[:80]!r}")
    open(path, "w", encoding="utf-8").write(text.replace(old, new))


def run_one(prop, mutant, tier, tests, seed):
    name, file, old, new, expect = mutant
    dst = f"/tmp/vf_mut.{os.getpid()}.{name}"
    make_copy(dst)
    try:
        edits = [(file, old, new)] if not isinstance(file, list) else file
        try:
            for f, o, n in edits:
                apply(dst, f, o, n)
        except ValueError as exc:
            return f"ANCHOR {prop} {name}: {exc}"
        suite = ""
        if tests:
            r = subprocess.run(
                ["/venv/bin/python", "-m", "pytest", "-q", "-p", "no:cacheprovider", "-x", "-n", "4", "tests"],
                cwd=dst, capture_output=True, text=True, env=dict(os.environ, PYTHONPATH=dst),
            )
            suite = "suite=pass" if r.returncode == 0 else "suite=FAIL"
        env = dict(os.environ, VERIF_REPO=dst, VERIF_SEED=str(seed), VERIF_EVIDENCE_DIR=os.path.join(dst, "_ev"), VERIF_RUN_REPLAY_DIR=os.path.join(dst, "_rp"))
        r = subprocess.run([os.path.join(HERE, "check"), prop, "--tier", tier], capture_output=True, text=True, env=env, cwd=HERE)
        caught = r.returncode == 1 and "VIOLATION" in r.stdout
        if expect == "skip":
            pass
        status = "caught" if caught else ("green" if r.returncode == 0 else f"exit{r.returncode}")
        clause = ""
        for line in r.stdout.splitlines():
            if line.strip().startswith("clause="):
                clause = line.strip()[:160]
                break
        ok = "OK " if status == expect else "MISS"
        if r.returncode == 2:
            clause = (r.stdout + r.stderr)[-600:]
        return f"{ok} {prop} {name}: {status} (expect {expect}) {suite} {clause}"
    finally:
        shutil.rmtree(dst, ignore_errors=True)


def main():
    from mutants import MUTANTS

    ap = argparse.ArgumentParser()
    ap.add_argument("prop")
    ap.add_argument("--tests", action="store_true")
    ap.add_argument("--only")
    ap.add_argument("--tier", default="quick")
    ap.add_argument("--seed", default="1")
    ap.add_argument("-j", type=int, default=4)
    args = ap.parse_args()
    props = sorted(MUTANTS) if args.prop == "all" else [args.prop]
    jobs = []
    for prop in props:
        for m in MUTANTS.get(prop, []):
            if args.only and m[0] != args.only:
                continue
            jobs.append((prop, m))
    from concurrent.futures import ThreadPoolExecutor

    with ThreadPoolExecutor(args.j) as ex:
        for line in ex.map(lambda j: run_one(j[0], j[1], args.tier, args.tests, args.seed), jobs):
            print(line, flush=True)


if __name__ == "__main__":
    main()
