"""Helpers for the persistence properties (C06 C11-C15): fake periodic-save timer,
gateway lifetimes on a shared file, fresh loads, scratch directories."""
import os
import shutil
import tempfile
import threading as _threading

from vf import drive


class FakeTimer:
    def __init__(self, host, interval, function):
        self.host = host
        self.interval = interval
        self.function = function
        self.started = False
        self.cancelled = False
        self.fired = False
        self.owner = host.owner  # the Lifetime whose code created this timer (None outside any)
        host.timers.append(self)

    def start(self):
        self.started = True

    def cancel(self):
        self.cancelled = True


class FakeThreading:
    """Stand-in for the `threading` module inside mysensors.task."""

    def __init__(self):
        self.timers = []
        self.owner = None
        self.Event = _threading.Event
        self.Thread = _threading.Thread
        self.Lock = _threading.Lock

    def Timer(self, interval, function):  # noqa: N802
        return FakeTimer(self, interval, function)

    def armed(self, owner=None):
        return [t for t in self.timers if t.started and not t.cancelled and not t.fired and (owner is None or t.owner in (None, owner))]


class TimerPatch:
    def __enter__(self):
        import mysensors.task as task

        self._task = task
        self._saved = task.threading
        self.fake = FakeThreading()
        task.threading = self.fake
        return self.fake

    def __exit__(self, *exc):
        self._task.threading = self._saved
        return False


class Scratch:
    """Temporary directory under /tmp, removed on exit."""

    def __enter__(self):
        self.dir = tempfile.mkdtemp(prefix="vf_p_")
        return self.dir

    def __exit__(self, *exc):
        shutil.rmtree(self.dir, ignore_errors=True)
        return False


class Lifetime:
    """One gateway object on a persistence file, with the fake timer owned by the harness.

    Must be used inside a TimerPatch (the `fake` passed in)."""

    def __init__(self, fake, version, path, flavour="sync", start=True):
        self.fake = fake
        self.driver = drive.Driver(version, flavour, persistence=True, persistence_file=path)
        self.gw = self.driver.gw
        self.path = path
        if start:
            self.start()

    def start(self):
        """start_persistence(): load what is on disk, first save, arm the periodic timer."""
        self.fake.owner = self
        try:
            self.gw.start_persistence()
        finally:
            self.fake.owner = None

    def tick(self):
        """The periodic timer fires (if one is armed). Returns the exception, if any."""
        armed = self.fake.armed(self)
        if not armed:
            return "no-timer"
        timer = armed[-1]
        timer.fired = True
        self.fake.owner = self
        try:
            timer.function()
        except Exception as exc:  # pylint: disable=broad-except
            return exc
        finally:
            self.fake.owner = None
        return None

    def stop(self):
        self.gw.stop()

    def projection(self):
        return drive.projection(self.gw)


def fresh_load(version, path, flavour="sync"):
    """A new gateway object that only loads the file (no saving). Returns the Driver."""
    with TimerPatch() as fake:
        drv = drive.Driver(version, flavour, persistence=True, persistence_file=path)
        drv.gw.tasks.persistence.safe_load_sensors()
        del fake
    return drv


def listing(directory):
    """{relative name: bytes | ("link", target)} for everything below `directory` (symlinks kept as links)."""
    out = {}
    for root, dirs, files in os.walk(directory):
        for name in sorted(files + [d for d in dirs if os.path.islink(os.path.join(root, d))]):
            full = os.path.join(root, name)
            rel = os.path.relpath(full, directory)
            if os.path.islink(full):
                out[rel] = ("link", os.readlink(full))
            elif os.path.isfile(full):
                with open(full, "rb") as fh:
                    out[rel] = fh.read()
    return dict(sorted(out.items()))


def restore(directory, files):
    """Make `directory` contain exactly `files` (as returned by listing)."""
    for name in os.listdir(directory):
        full = os.path.join(directory, name)
        if os.path.isdir(full) and not os.path.islink(full):
            shutil.rmtree(full)
        else:
            os.remove(full)
    for name, data in files.items():
        full = os.path.join(directory, name)
        os.makedirs(os.path.dirname(full), exist_ok=True)
        if isinstance(data, tuple):
            os.symlink(data[1], full)
        else:
            with open(full, "wb") as fh:
                fh.write(data)
