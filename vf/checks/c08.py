"""C08 - withheld traffic reaches the sleeping node exactly once, in order."""
from vf.histcheck import HistoryCheck

RULE = (
    "Hypothesis-generated histories over versions 2.0/2.1/2.2 x {sync, async}: nodes whose presented version is "
    "equal to / older than the gateway's / never presented (id assignment only), several withheld items between "
    "wake-ups, controller set-value calls with value type as int / IntEnum / numeric str and values that are "
    "rule-conforming, rule-violating or arbitrary text, value types the node has / has not reported, node "
    "confirmations, children presented after the first wake-up, value requests while a desired value is pending. "
    "At every wake-up step the transport log must equal: withheld replies (FIFO) then, in any order, one set per "
    "(child, value type) with a pending desired value whose type the node has reported; queue empty afterwards; "
    "a refused call changes nothing; a plainly valid call must be accepted; no wake-up or request may raise. "
    "Flood phase: 257 / 300 (thorough: 1000, 4000) withheld items of all kinds between two wake-ups. "
    "Non-trivial = >= 2 withheld items at one wake-up, or a desired value re-sent at >= 2 wake-ups, or a set-value "
    "call on a sleeping node whose presented version differs from the gateway's."
)


def nontrivial(case, sess):
    labels = sess.labels
    return ("wake-held>=2" in labels or "wake-desired-resent" in labels or "set-sleeping-version-mismatch" in labels) and "aborted" not in labels


KINDS = ["node", "child", "child", "set", "set", "set", "set", "req", "req", "req", "time", "config", "wake", "wake", "wake", "wake", "otherwake", "battery"]

def flood_phase(run, tier):
    """How many replies wait for a sleeping node is not bounded by the statement: between two wake-ups the node (and
    the controller) cause 257 / 300 / 1000 withheld items of all kinds; the wake-up must release every one, oldest
    first, and a second wake-up must be silent."""
    from vf import common

    jobs = [(version, n, flavour) for version in ("2.0", "2.1", "2.2") for n in ((257, 300) if tier == "quick" else (257, 300, 1000, 4000)) for flavour in ("sync", "async")]
    for stats in common.pool_map(_flood_worker, jobs):
        run.stats.merge(stats)


def flood_case(version, n, flavour):
    from vf.ref import tables as T

    wake = f"1;255;3;0;{T.wake_sub(version)};5"
    ops = [{"op": "line", "text": t} for t in ("1;255;0;0;17;" + version, "1;0;0;0;6;temp", "1;1;0;0;3;dimmer", "1;0;1;0;0;20.5", "1;1;1;0;3;40", wake)]
    kinds = ["1;0;2;0;0;", "1;1;2;0;3;", "1;255;3;0;6;0", "1;255;3;0;1;", "1;9;1;0;2;1"]  # value requests, config, time, unknown child
    for i in range(n):
        ops.append({"op": "line", "text": kinds[i % len(kinds)]})
        if i % 50 == 7:
            ops.append({"op": "line", "text": f"1;0;1;0;0;{i}"})  # the reported value moves on: later replies differ
    ops += [{"op": "line", "text": wake}, {"op": "line", "text": wake}]
    return {"version": version, "flavour": flavour, "ops": ops, "flood": n}


def _flood_worker(args):
    from vf import common, lockstep
    from vf.common import Violation

    version, n, flavour = args
    common.setup_path()
    stats = common.Stats()
    case = flood_case(version, n, flavour)
    try:
        lockstep.run_history(case, {"wake", "sleep"}, stats)
        stats.case(f"flood:{version}:{n}:{flavour}", {"version": version, "withheld_between_wake_ups": n, "flavour": flavour}, labels=("flood",))
    except Violation as v:
        stats.violation(v.clause, dict(case, ops=case["ops"][:8] + [{"op": "line", "text": "... (regenerate with vf.checks.c08.flood_case)"}], regenerate=[version, n, flavour]), v.detail[:600])
    return stats


CHECK = HistoryCheck(
    "C08", {"wake"}, RULE,
    dict(versions=("2.0", "2.1", "2.2"), max_ops=35, min_ops=6, frame_kinds=KINDS, wild_vt=True, op_weights=dict(set=24, fw=3, near=3, raw=1, save=4)),
    nontrivial, quick=(16, 160), thorough=(16, 2500), extra_phase=flood_phase,
    assumptions=[
        "reference model: hold queue FIFO, desired map keyed by (child, int value type), reported set per child",
        "order among the desired-value set commands of one burst is not pinned by the statement and not compared",
    ],
)
main = CHECK.main


def replay(path):
    import json

    body = json.load(open(path, encoding="utf-8"))
    if body.get("case", {}).get("regenerate"):
        from vf import common, lockstep
        from vf.common import Violation

        common.setup_path()
        try:
            lockstep.run_history(flood_case(*body["case"]["regenerate"]), {"wake", "sleep"})
        except Violation as v:
            print(f"VIOLATION property=C08 replay={path}")
            print(f"  clause={v.clause} detail={v.detail[:600]}")
            return 1
        print(f"C08 replay {path}: holds")
        return 0
    return CHECK.replay(path)
